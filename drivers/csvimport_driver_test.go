package main

// Overlay driver for property C19 (compiled into cmd/csvimport's test binary by
// /verif/drivers/run_driver.sh; never part of /repo). doBatchInsert, csvToSql
// and colDataTypes are the real code, running against a real RelationService
// in a simulated world (virtual flush timer, small caches); the input stream
// is a simulated reader delivering the CSV text in seeded chunks, optionally
// ending in EOF mid-record or in a read error.

import (
	"encoding/csv"
	"encoding/json"
	"errors"
	"fmt"
	"io"
	"math/big"
	"os"
	"path/filepath"
	"sort"
	"strconv"
	"strings"
	"testing"
	"time"

	"github.com/mk6i/mkdb/engine"
	"github.com/mk6i/mkdb/sql"
	"github.com/mk6i/mkdb/storage"
	"verif/sim/core"
)

type c19Adv struct {
	At int `json:"at"`
	Ms int `json:"ms"`
}

type c19Case struct {
	Seed     uint64     `json:"seed"`
	Cols     []core.Col `json:"cols"`
	DstCols  []string   `json:"dst_cols"`
	SrcCols  []int      `json:"src_cols"`
	Sep      string     `json:"sep"`
	Text     []byte     `json:"text"`
	Chunks   []int      `json:"chunks"`
	Fault    string     `json:"fault"` // "", "eof", "err"
	FaultAt  int        `json:"fault_at"`
	CacheCap int        `json:"cache_cap"`
	Advances []c19Adv   `json:"advances"`
	Post     string     `json:"post"` // "", "restart", "crash"
	// SlowListenerMs: the consumer of the importer's progress / error channels
	// starts late (a stalled console). The unchanged importer hands messages
	// over one at a time, so its outcome does not depend on this delay.
	SlowListenerMs int `json:"slow_listener_ms,omitempty"`
}

var errSimRead = errors.New("simulated read error")

type simReader struct {
	data   []byte
	pos    int
	chunks []int
	ci     int
	fault  string
	limit  int
	reads  int
}

func (s *simReader) Read(p []byte) (int, error) {
	if s.pos >= s.limit {
		if s.fault == "err" {
			return 0, errSimRead
		}
		return 0, io.EOF
	}
	n := 64
	if len(s.chunks) > 0 {
		n = s.chunks[s.ci%len(s.chunks)]
		s.ci++
	}
	if n > len(p) {
		n = len(p)
	}
	if n > s.limit-s.pos {
		n = s.limit - s.pos
	}
	copy(p, s.data[s.pos:s.pos+n])
	s.pos += n
	s.reads++
	return n, nil
}

func (c *c19Case) delivered() ([]byte, int) {
	limit := len(c.Text)
	if c.Fault != "" && c.FaultAt < limit {
		limit = c.FaultAt
	}
	return c.Text[:limit], limit
}

// ---- reference ----

type refOutcome struct {
	rows    [][]core.Val // accepted rows (full table width), in order
	errs    int
	records int
	kinds   map[string]bool
}

func parseInt(s string, bits int) (int64, bool) {
	if s == "" {
		return 0, false
	}
	body := s
	if body[0] == '+' || body[0] == '-' {
		body = body[1:]
	}
	if body == "" {
		return 0, false
	}
	for _, ch := range body {
		if ch < '0' || ch > '9' {
			return 0, false
		}
	}
	z, ok := new(big.Int).SetString(s, 10)
	if !ok {
		return 0, false
	}
	// the importer parses with the platform int (64 bit) first
	if !z.IsInt64() {
		return 0, false
	}
	v := z.Int64()
	if bits == 32 && (v > 2147483647 || v < -2147483648) {
		return 0, false
	}
	return v, true
}

func (c *c19Case) reference() *refOutcome {
	out := &refOutcome{kinds: map[string]bool{}}
	data, _ := c.delivered()
	var rd io.Reader = strings.NewReader(string(data))
	if c.Fault == "err" {
		rd = io.MultiReader(rd, errReader{})
	}
	cr := csv.NewReader(rd)
	cr.FieldsPerRecord = -1
	cr.Comma = []rune(c.Sep)[0]
	colIdx := map[string]int{}
	for i, col := range c.Cols {
		colIdx[col.Name] = i
	}
	maxIdx := 0
	for _, i := range c.SrcCols {
		if i > maxIdx {
			maxIdx = i
		}
	}
	for {
		rec, err := cr.Read()
		if err == io.EOF {
			break
		}
		out.records++
		if err != nil {
			out.errs++
			if _, ok := err.(*csv.ParseError); ok {
				out.kinds["parse-error"] = true
				continue
			}
			out.kinds["read-error"] = true
			break
		}
		if maxIdx >= len(rec) {
			out.errs++
			out.kinds["short-record"] = true
			continue
		}
		row := make([]core.Val, len(c.Cols))
		for i := range row {
			row[i] = core.Null()
		}
		bad := false
		for i, src := range c.SrcCols {
			f := rec[src]
			ci := colIdx[c.DstCols[i]]
			if f == "\\N" {
				row[ci] = core.Null()
				out.kinds["null-marker"] = true
				continue
			}
			switch c.Cols[ci].Type {
			case core.TInt:
				v, ok := parseInt(f, 32)
				if !ok {
					bad = true
					out.kinds["bad-int"] = true
				}
				row[ci] = core.Int(v)
			case core.TBigInt:
				v, ok := parseInt(f, 64)
				if !ok {
					bad = true
					out.kinds["bad-bigint"] = true
				}
				row[ci] = core.Int(v)
			case core.TBool:
				switch strings.ToLower(f) {
				case "1", "true", "t":
					row[ci] = core.Bool(true)
				case "0", "false", "f":
					row[ci] = core.Bool(false)
				default:
					bad = true
					out.kinds["bad-bool"] = true
				}
			default:
				row[ci] = core.Str(f)
			}
		}
		if !bad && core.EncSize(c.Cols, row) > core.MaxRowBytes {
			bad = true
			out.kinds["oversized"] = true
		}
		if bad {
			out.errs++
			continue
		}
		out.kinds["accepted"] = true
		out.rows = append(out.rows, row)
	}
	return out
}

type errReader struct{}

func (errReader) Read([]byte) (int, error) { return 0, errSimRead }

// ---- execution ----

func mkViolation(c *c19Case, how, detail string) *core.DriverViolation {
	b, _ := json.Marshal(c)
	return &core.DriverViolation{Prop: "C19", Oracle: "O-stream", Features: map[string]string{"how": how}, Detail: detail, Seed: c.Seed, Case: b}
}

func compareRows(c *c19Case, o *core.ObservedTable, want [][]core.Val, when string) *core.DriverViolation {
	if len(o.Rows) != len(want) {
		return mkViolation(c, "row-count", fmt.Sprintf("%s: table holds %d rows, %d records were accepted by the reference", when, len(o.Rows), len(want)))
	}
	for i := range want {
		for j := range want[i] {
			if !want[i][j].Equal(o.Rows[i][j]) {
				ty := []string{"int", "varchar", "boolean", "bigint"}[c.Cols[j].Type]
				v := mkViolation(c, "value", fmt.Sprintf("%s: row %d column %s (%s): stored %s, the record says %s", when, i, c.Cols[j].Name, ty, o.Rows[i][j], want[i][j]))
				v.Features["type"] = ty
				return v
			}
		}
	}
	return nil
}

// callMain runs the tool's real main() - flag parsing, opening the database,
// makeConfig, the import, the report loop, whatever it does before it returns
// - with the given command line and standard input.
func callMain(args []string, stdin []byte, scratch string) (panicMsg string, err error) {
	in := filepath.Join(scratch, "stdin.csv")
	if err := os.WriteFile(in, stdin, 0644); err != nil {
		return "", err
	}
	f, err := os.Open(in)
	if err != nil {
		return "", err
	}
	defer f.Close()
	defer os.Remove(in)
	keepArgs, keepIn := os.Args, os.Stdin
	os.Args, os.Stdin = append([]string{"csvimport"}, args...), f
	defer func() {
		os.Args, os.Stdin = keepArgs, keepIn
		if r := recover(); r != nil {
			panicMsg = fmt.Sprint(r)
		}
	}()
	main()
	return "", nil
}

// runC19Twice: the tool is run twice in a row on the same document, as two
// processes (each run is the real main(); the process ends when main returns,
// before the next flush tick); then the console starts (InitStorage). Every
// record either run acknowledged must be in the table, in input order, the
// second run's rows after the first's.
func runC19Twice(c *c19Case, scratch string, stats map[string]int64) (v *core.DriverViolation, harness string, hash string) {
	ref := c.reference()
	args := []string{"-db", "db", "-table", "t", "-dest-cols", strings.Join(c.DstCols, ","), "-separator", c.Sep}
	var src []string
	for _, x := range c.SrcCols {
		src = append(src, strconv.Itoa(x))
	}
	args = append(args, "-src-cols", strings.Join(src, ","))
	var files map[string][]byte
	var hashes []string
	// stage runs fn in a fresh world built from the files the previous stage left
	stage := func(name string, fn func(w *core.World) *core.DriverViolation) (*core.DriverViolation, string) {
		dir := filepath.Join(scratch, "w-"+name)
		os.MkdirAll(dir, 0755)
		defer os.RemoveAll(dir)
		w, err := core.NewWorld(dir, core.Knobs{CacheCap: c.CacheCap}, "C19", files)
		if err != nil {
			return nil, err.Error()
		}
		defer w.Unmount()
		if v := fn(w); v != nil {
			return v, ""
		}
		if mv := w.MonitorViolation(); mv != nil {
			return mkViolation(c, "monitor", mv.Detail), ""
		}
		files = w.SnapshotFiles() // the process ends here: what is in the files is all that is left
		if err := w.CheckShadows(); err != nil {
			return nil, err.Error()
		}
		hashes = append(hashes, w.HashString())
		for k, x := range w.StatsCopy() {
			stats[k] += x
		}
		return nil, ""
	}
	var setupErr string
	if v, h := stage("setup", func(w *core.World) *core.DriverViolation {
		if err := storage.CreateDB("db"); err != nil {
			setupErr = "CreateDB: " + err.Error()
			return nil
		}
		rs, err := storage.OpenRelation("db", true)
		if err != nil {
			setupErr = "OpenRelation: " + err.Error()
			return nil
		}
		ct := sql.CreateTable{Name: "t"}
		for _, col := range c.Cols {
			var dt interface{}
			switch col.Type {
			case core.TInt:
				dt = sql.NumericType{}
			case core.TBigInt:
				dt = sql.BigIntType{}
			case core.TBool:
				dt = sql.BooleanType{}
			default:
				dt = sql.CharacterStringType{Len: 255, Type: sql.T_VARCHAR}
			}
			ct.Elements = append(ct.Elements, sql.TableElement{ColumnDefinition: sql.ColumnDefinition{Name: col.Name, DataType: dt}})
		}
		if err := engine.EvaluateCreateTable(ct, rs); err != nil {
			setupErr = "CREATE TABLE: " + err.Error()
			return nil
		}
		if err := rs.Close(); err != nil {
			setupErr = "Close: " + err.Error()
		}
		return nil
	}); v != nil || h != "" || setupErr != "" {
		return v, h + setupErr, ""
	}
	refused := false
	for run := 1; run <= 2; run++ {
		name := fmt.Sprintf("run%d", run)
		if v, h := stage(name, func(w *core.World) *core.DriverViolation {
			w.PreStmt(0, nil)
			w.BeginStmt(0, "insert", nil)
			pmsg, err := callMain(args, c.Text, scratch)
			w.EndStmt()
			if w.StatsCopy()["lru_refuse"] > 0 {
				refused = true
			}
			if err != nil {
				setupErr = err.Error()
				return nil
			}
			if pmsg != "" {
				return mkViolation(c, "main-panic", fmt.Sprintf("run %d of the tool panicked: %s", run, pmsg))
			}
			return nil
		}); v != nil || h != "" || setupErr != "" {
			return v, h + setupErr, ""
		}
		stats["tool_runs_through_main"]++
		if refused {
			// no tick is delivered while main() runs (the process is gone before
			// the next one), so a small simulated cache fills with dirty pages and
			// refuses: records are then reported, not stored - the precondition
			// exit of every check but C15 (a thorough run on the unchanged tree
			// reported this as a violation once: 134 records, cache of 24 pages)
			stats["abandoned_cache_refused"]++
			return nil, "", strings.Join(hashes, "")
		}
	}
	want := append(append([][]core.Val(nil), ref.rows...), ref.rows...)
	if v, h := stage("console", func(w *core.World) *core.DriverViolation {
		w.SetRecovery(true)
		var ierr error
		pmsg, _ := w.Guarded(func() { ierr = storage.InitStorage() })
		w.SetRecovery(false)
		if pmsg != "" || ierr != nil {
			return mkViolation(c, "recovery", fmt.Sprintf("InitStorage after two runs of the tool: %v %s", ierr, pmsg))
		}
		rs, err := storage.OpenRelation("db", true)
		if err != nil {
			return mkViolation(c, "recovery", "OpenRelation after two runs of the tool: "+err.Error())
		}
		o, err := w.Observe(rs, "t")
		if err != nil {
			return mkViolation(c, "select-error", "SELECT * after two runs of the tool: "+err.Error())
		}
		if v := compareRows(c, o, want, "after two runs of the tool over the same document and a start of the console"); v != nil {
			v.Features["how"] = "twice-" + v.Features["how"]
			return v
		}
		rs.Close()
		return nil
	}); v != nil || h != "" {
		return v, h, ""
	}
	stats["records"] += 2 * int64(ref.records)
	stats["records_accepted"] += 2 * int64(len(ref.rows))
	stats["records_rejected"] += 2 * int64(ref.errs)
	stats["post_twice"]++
	return nil, "", strings.Join(hashes, "")
}

func runC19(c *c19Case, scratch string, stats map[string]int64) (v *core.DriverViolation, harness string, hash string) {
	if c.Post == "twice" {
		return runC19Twice(c, scratch, stats)
	}
	dir := filepath.Join(scratch, "w")
	os.MkdirAll(dir, 0755)
	defer os.RemoveAll(dir)
	w, err := core.NewWorld(dir, core.Knobs{CacheCap: c.CacheCap}, "C19", nil)
	if err != nil {
		return nil, err.Error(), ""
	}
	mounted := true
	defer func() {
		if mounted {
			w.Unmount()
		}
	}()
	addStats := func(w *core.World) {
		for k, x := range w.StatsCopy() {
			stats[k] += x
		}
	}
	if err := storage.CreateDB("db"); err != nil {
		return nil, "CreateDB: " + err.Error(), ""
	}
	rs, err := storage.OpenRelation("db", true)
	if err != nil {
		return nil, "OpenRelation: " + err.Error(), ""
	}
	ct := sql.CreateTable{Name: "t"}
	for _, col := range c.Cols {
		var dt interface{}
		switch col.Type {
		case core.TInt:
			dt = sql.NumericType{}
		case core.TBigInt:
			dt = sql.BigIntType{}
		case core.TBool:
			dt = sql.BooleanType{}
		default:
			dt = sql.CharacterStringType{Len: 255, Type: sql.T_VARCHAR}
		}
		ct.Elements = append(ct.Elements, sql.TableElement{ColumnDefinition: sql.ColumnDefinition{Name: col.Name, DataType: dt}})
	}
	if err := engine.EvaluateCreateTable(ct, rs); err != nil {
		return nil, "CREATE TABLE: " + err.Error(), ""
	}
	types, err := colDataTypes(rs, "t", c.DstCols)
	if err != nil || types == nil {
		return nil, fmt.Sprintf("colDataTypes: %v", err), ""
	}
	cfg := importCfg{colTypes: types, db: "db", dstCols: c.DstCols, separator: []rune(c.Sep)[0], srcCols: c.SrcCols, table: "t"}
	_, limit := c.delivered()
	rd := &simReader{data: c.Text, chunks: c.Chunks, fault: c.Fault, limit: limit}
	var dirs []core.Directive
	for _, a := range c.Advances {
		dirs = append(dirs, core.Directive{Stmt: 0, At: a.At, Kind: "advance", Ms: a.Ms})
	}
	ref := c.reference()
	w.PreStmt(0, nil)
	w.BeginStmt(0, "insert", dirs)
	oks, errs := 0, 0
	var importPanic string
	done := make(chan struct{})
	var chOk chan bool
	var chErr chan error
	chOk, chErr = doBatchInsert(rs, cfg, rd)
	go func() {
		defer close(done)
		if c.SlowListenerMs > 0 {
			time.Sleep(time.Duration(c.SlowListenerMs) * time.Millisecond)
		}
		for chOk != nil || chErr != nil {
			select {
			case _, ok := <-chOk:
				if ok {
					oks++
				} else {
					chOk = nil
				}
			case _, ok := <-chErr:
				if ok {
					errs++
				} else {
					chErr = nil
				}
			}
		}
	}()
	select {
	case <-done:
	case <-time.After(20 * time.Second):
		return mkViolation(c, "hang", "the import did not finish within 20 s of wall clock"), "", ""
	}
	stats["yield_points"] += int64(w.EvCount())
	w.EndStmt()
	_ = importPanic
	if mv := w.MonitorViolation(); mv != nil {
		return mkViolation(c, "monitor", mv.Detail), "", ""
	}
	if w.StatsCopy()["lru_refuse"] > 0 {
		// the simulator withheld ticks until the small cache was full of dirty
		// pages: inserts fail with ErrLRUCacheFull, which is outside C19
		stats["abandoned_cache_refused"]++
		addStats(w)
		return nil, "", w.HashString()
	}
	stats["records"] += int64(ref.records)
	stats["records_accepted"] += int64(len(ref.rows))
	stats["records_rejected"] += int64(ref.errs)
	stats["reads"] += int64(rd.reads)
	if oks != len(ref.rows) || errs != ref.errs {
		return mkViolation(c, "counts", fmt.Sprintf("import reported %d stored and %d failed records; the reference decomposition has %d acceptable and %d failing records (%d in all)", oks, errs, len(ref.rows), ref.errs, ref.records)), "", ""
	}
	o, err := w.Observe(rs, "t")
	if err != nil && strings.Contains(err.Error(), "cache is full") {
		// same precondition exit as above, met by the observer query itself
		stats["abandoned_cache_refused"]++
		addStats(w)
		return nil, "", w.HashString()
	}
	if err != nil {
		return mkViolation(c, "select-error", "SELECT * after the import: "+err.Error()), "", ""
	}
	if v := compareRows(c, o, ref.rows, "after the import"); v != nil {
		return v, "", ""
	}
	switch c.Post {
	case "restart":
		if err := rs.Close(); err != nil {
			return mkViolation(c, "close-error", err.Error()), "", ""
		}
		w.KillAll()
		w.SetRecovery(true)
		err := storage.InitStorage()
		w.SetRecovery(false)
		if err != nil {
			return mkViolation(c, "restart", "InitStorage after clean close: "+err.Error()), "", ""
		}
		rs2, err := storage.OpenRelation("db", true)
		if err != nil {
			return mkViolation(c, "restart", "OpenRelation after restart: "+err.Error()), "", ""
		}
		o, err := w.Observe(rs2, "t")
		if err != nil {
			return mkViolation(c, "select-error", "SELECT * after restart: "+err.Error()), "", ""
		}
		if v := compareRows(c, o, ref.rows, "after restart"); v != nil {
			return v, "", ""
		}
		stats["post_restart"]++
	case "crash":
		files := w.SnapshotFiles()
		if err := w.CheckShadows(); err != nil {
			return nil, err.Error(), ""
		}
		hash = w.HashString()
		addStats(w)
		w.Unmount()
		mounted = false
		dir2 := filepath.Join(scratch, "w2")
		os.MkdirAll(dir2, 0755)
		defer os.RemoveAll(dir2)
		w2, err := core.NewWorld(dir2, core.Knobs{CacheCap: c.CacheCap}, "C19", files)
		if err != nil {
			return nil, err.Error(), ""
		}
		defer w2.Unmount()
		defer addStats(w2)
		w2.SetRecovery(true)
		var ierr error
		pmsg, _ := w2.Guarded(func() { ierr = storage.InitStorage() })
		w2.SetRecovery(false)
		if pmsg != "" || ierr != nil {
			return mkViolation(c, "recovery", fmt.Sprintf("InitStorage after a crash at the end of the import: %v %s", ierr, pmsg)), "", hash
		}
		rs2, err := storage.OpenRelation("db", true)
		if err != nil {
			return mkViolation(c, "recovery", "OpenRelation after recovery: "+err.Error()), "", hash
		}
		o, err := w2.Observe(rs2, "t")
		if err != nil {
			return mkViolation(c, "select-error", "SELECT * after recovery: "+err.Error()), "", hash
		}
		if v := compareRows(c, o, ref.rows, "after crash recovery"); v != nil {
			return v, "", hash
		}
		stats["recoveries"]++
		stats["post_crash"]++
		return nil, "", hash
	}
	if err := w.CheckShadows(); err != nil {
		return nil, err.Error(), ""
	}
	hash = w.HashString()
	addStats(w)
	return nil, "", hash
}

// ---- generator ----

func genField(r *core.Rng, ty int, sep string) string {
	if r.Chance(0.01) {
		// a byte-order mark glued to the front of a field (files concatenated
		// by hand, exports of spreadsheet programs): part of the field's text
		return "\ufeff" + genField(r, ty, sep)
	}
	quoteIfNeeded := func(s string) string {
		if strings.ContainsAny(s, sep+"\"\r\n") || r.Chance(0.1) {
			return "\"" + strings.ReplaceAll(s, "\"", "\"\"") + "\""
		}
		return s
	}
	if r.Chance(0.1) {
		return "\\N"
	}
	switch ty {
	case core.TInt:
		switch r.Intn(12) {
		case 0:
			return []string{"12x", "", "1.5", "99999999999", "2147483648", "-2147483649", "0x10", "1e3", " 7", "--1", "9223372036854775808"}[r.Intn(11)]
		case 1:
			return []string{"2147483647", "-2147483648", "0", "-0", "+5", "007"}[r.Intn(6)]
		}
		v := r.Intn(2000000) - 1000000
		return strconv.Itoa(v)
	case core.TBigInt:
		switch r.Intn(12) {
		case 0:
			return []string{"abc", "", "9223372036854775808", "-9223372036854775809", "3.0", "1_000"}[r.Intn(6)]
		case 1:
			return []string{"9223372036854775807", "-9223372036854775808", "2147483648", "0", "+12"}[r.Intn(5)]
		}
		return strconv.FormatInt(int64(r.U64()>>uint(r.Intn(62)+1))-int64(r.Intn(1000)), 10)
	case core.TBool:
		return []string{"1", "0", "true", "false", "t", "f", "TRUE", "False", "T", "F", "yes", "no", "2", ""}[r.Intn(14)]
	}
	n := r.Range(0, 14)
	if r.Chance(0.05) {
		n = r.Range(200, 420)
	}
	var sb strings.Builder
	for i := 0; i < n; i++ {
		switch r.Intn(14) {
		case 0:
			sb.WriteString(sep)
		case 1:
			sb.WriteString("\"")
		case 2:
			sb.WriteString("\n")
		case 3:
			sb.WriteString([]string{"é", "漢", "\\", "\\N"}[r.Intn(4)])
		case 4:
			sb.WriteString(" ")
		default:
			sb.WriteByte("abcdefghijklmnopqrstuvwxyzABCXYZ0123456789-_;:|"[r.Intn(47)])
		}
	}
	return quoteIfNeeded(sb.String())
}

func genC19(seed uint64, thorough bool) *c19Case {
	r := core.NewRng(seed ^ 0xc19)
	c := &c19Case{Seed: seed}
	ncols := r.Range(1, 5)
	for i := 0; i < ncols; i++ {
		c.Cols = append(c.Cols, core.Col{Name: fmt.Sprintf("c%d", i), Type: r.Intn(4), Len: 255})
	}
	c.Sep = []string{",", ",", ";", "\t", "|", ",", ";", "\t", "|", "\u00a7", "\u2192", "\u2502"}[r.Intn(12)] // now and then a separator of more than one byte
	// mapping: a non-empty subset of the table columns in random order, each fed from a CSV index
	perm := make([]int, ncols)
	for i := range perm {
		perm[i] = i
	}
	for i := ncols - 1; i > 0; i-- {
		j := r.Intn(i + 1)
		perm[i], perm[j] = perm[j], perm[i]
	}
	nmap := r.Range(1, ncols)
	width := nmap + r.Intn(3) // CSV records have at least this many fields
	fieldType := make([]int, width)
	for i := range fieldType {
		fieldType[i] = core.TVarchar
	}
	used := map[int]bool{}
	for i := 0; i < nmap; i++ {
		src := r.Intn(width)
		shareSrc := r.Chance(0.15) // the same CSV column may feed two destination columns
		for used[src] && !shareSrc {
			src = (src + 1) % width
		}
		if used[src] {
			// the field generator follows the type of the first destination; the
			// reference handles whatever text arrives
		}
		used[src] = true
		c.DstCols = append(c.DstCols, c.Cols[perm[i]].Name)
		c.SrcCols = append(c.SrcCols, src)
		if fieldType[src] == core.TVarchar || r.Chance(0.5) {
			fieldType[src] = c.Cols[perm[i]].Type
		}
	}
	nrec := r.Range(1, 40)
	if thorough {
		nrec = r.Range(1, 300)
	}
	flood := r.Chance(0.001)
	if flood {
		// a document with thousands of bad records and a console that is slow to
		// take the reports: every record must still be stored or reported
		nrec = r.Range(1100, 2800)
		c.SlowListenerMs = r.Range(20, 60)
	}
	var sb strings.Builder
	for i := 0; i < nrec; i++ {
		w := width
		floodBad := flood && i < nrec-r.Range(0, 30) // an unbroken run of bad records, a few ordinary ones at the end
		switch r.Intn(20) {
		case 0:
			w = r.Intn(width + 1) // short record
		case 1:
			w = width + r.Range(1, 3)
		}
		for j := 0; j < w; j++ {
			if j > 0 {
				sb.WriteString(c.Sep)
			}
			ty := core.TVarchar
			if j < width {
				ty = fieldType[j]
			}
			sb.WriteString(genField(r, ty, c.Sep))
		}
		switch x := r.Intn(25); {
		case floodBad:
			sb.WriteString("x\"y") // a bare quote: this record is reported, the next line starts a new one
		case x == 0:
			sb.WriteString("\"oops") // bare / unterminated quote
		case x == 1:
			sb.WriteString("x\"y")
		}
		if i < nrec-1 || r.Chance(0.7) {
			if r.Chance(0.2) {
				sb.WriteString("\r\n")
			} else {
				sb.WriteString("\n")
			}
		}
		if r.Chance(0.03) {
			sb.WriteString("\n")
		}
	}
	c.Text = []byte(sb.String())
	k := r.Range(1, 5)
	for i := 0; i < k; i++ {
		switch r.Intn(3) {
		case 0:
			c.Chunks = append(c.Chunks, r.Range(1, 4))
		case 1:
			c.Chunks = append(c.Chunks, r.Range(1, 64))
		default:
			c.Chunks = append(c.Chunks, r.Range(64, 5000))
		}
	}
	switch r.Intn(6) {
	case 0:
		c.Fault, c.FaultAt = "eof", r.Intn(len(c.Text)+1)
	case 1:
		c.Fault, c.FaultAt = "err", r.Intn(len(c.Text)+1)
	}
	c.CacheCap = []int{0, 0, 16, 24, 64}[r.Intn(5)]
	na := r.Intn(4)
	for i := 0; i < na; i++ {
		c.Advances = append(c.Advances, c19Adv{At: r.Intn(60 * nrec), Ms: r.Range(60, 400)})
	}
	c.Post = []string{"", "", "restart", "crash"}[r.Intn(4)]
	if !flood && r.Chance(0.05) {
		// the tool itself, twice in a row on this document (no stream fault: the
		// document comes from a file on standard input)
		c.Post, c.Fault, c.Advances, c.SlowListenerMs = "twice", "", nil, 0
	}
	return c
}

func shrinkC19(c *c19Case, how string, scratch string) *c19Case {
	deadline := time.Now().Add(25 * time.Second) // minimisation is bounded
	fails := func(x *c19Case) bool {
		if time.Now().After(deadline) {
			return false
		}
		v, h, _ := runC19(x, scratch, map[string]int64{})
		return h == "" && v != nil && v.Features["how"] == how
	}
	clone := func(x *c19Case) *c19Case {
		var y c19Case
		b, _ := json.Marshal(x)
		json.Unmarshal(b, &y)
		return &y
	}
	best := c
	try := func(y *c19Case) bool {
		if fails(y) {
			best = y
			return true
		}
		return false
	}
	// simplest environment first
	y := clone(best)
	y.Post, y.Advances, y.CacheCap, y.Fault, y.Chunks = "", nil, 0, "", nil
	try(y)
	// drop lines
	for budget := 60; budget > 0; {
		lines := strings.SplitAfter(string(best.Text), "\n")
		if len(lines) <= 1 {
			break
		}
		removed := false
		for i := len(lines) - 1; i >= 0 && budget > 0; i-- {
			budget--
			y := clone(best)
			y.Text = []byte(strings.Join(append(append([]string(nil), lines[:i]...), lines[i+1:]...), ""))
			if len(y.Text) == 0 {
				continue
			}
			if y.Fault != "" && y.FaultAt > len(y.Text) {
				y.FaultAt = len(y.Text)
			}
			if try(y) {
				removed = true
				break
			}
		}
		if !removed {
			break
		}
	}
	return best
}

func TestVerifC19(t *testing.T) {
	if os.Getenv("SIM_DRIVER") != "C19" {
		t.Skip("driver not selected")
	}
	res := &core.DriverResult{Prop: "C19", Stats: map[string]int64{}}
	defer res.Print()
	scratch := os.Getenv("SIM_SCRATCH")
	if scratch == "" {
		scratch, _ = os.MkdirTemp("", "c19")
		defer os.RemoveAll(scratch)
	}
	devnull, _ := os.OpenFile(os.DevNull, os.O_WRONLY, 0)
	keepOut, keepErr := os.Stdout, os.Stderr
	_, _ = keepOut, keepErr
	os.Stdout = devnull
	rp := os.Getenv("VERIF_REPLAY_CASE")
	if f := os.Getenv("VERIF_REPLAY_CASE_FILE"); f != "" {
		if b, err := os.ReadFile(f); err == nil {
			rp = string(b)
		}
	}
	if rp != "" {
		var c c19Case
		if err := json.Unmarshal([]byte(rp), &c); err != nil {
			res.Harness = err.Error()
			return
		}
		res.Evals = 1
		v, h, hash := runC19(&c, scratch, res.Stats)
		res.Harness, res.Hash = h, hash
		if v != nil {
			res.Violations = append(res.Violations, v)
		}
		return
	}
	base, _ := strconv.ParseUint(os.Getenv("SIM_SEED_BASE"), 10, 64)
	shard, _ := strconv.Atoi(os.Getenv("SIM_SHARD"))
	nshards, _ := strconv.Atoi(os.Getenv("SIM_NSHARDS"))
	if nshards < 1 {
		nshards = 1
	}
	budget, _ := strconv.Atoi(os.Getenv("SIM_BUDGET_SEC"))
	if budget < 1 {
		budget = 10
	}
	thorough := os.Getenv("VERIF_TIER") == "thorough"
	deadline := time.Now().Add(time.Duration(budget) * time.Second)
	fps := map[string]bool{}
	seen := map[string]bool{}
	res.Seeds[0] = base + uint64(shard)
	var hh uint64 = 1469598103934665603
	for i := uint64(shard); time.Now().Before(deadline) && len(res.Violations) < 3; i += uint64(nshards) {
		seed := base + i
		res.Seeds[1] = seed
		c := genC19(seed, thorough)
		res.Evals++
		v, h, hash := runC19(c, scratch, res.Stats)
		if h != "" {
			res.Harness = fmt.Sprintf("seed %d: %s", seed, h)
			return
		}
		for _, ch := range []byte(hash) {
			hh = (hh ^ uint64(ch)) * 1099511628211
		}
		ref := c.reference()
		if c.Fault != "" {
			res.Stats["fault_"+c.Fault]++
		}
		var kinds []string
		for k := range ref.kinds {
			kinds = append(kinds, k)
			res.Stats["kind_"+k]++
		}
		sort.Strings(kinds)
		var tys []string
		for _, col := range c.Cols {
			tys = append(tys, strconv.Itoa(col.Type))
		}
		chunkClass := "mid"
		if len(c.Chunks) > 0 && c.Chunks[0] <= 4 {
			chunkClass = "tiny"
		} else if len(c.Chunks) > 0 && c.Chunks[0] >= 64 {
			chunkClass = "big"
		}
		if ref.kinds["accepted"] && ref.errs > 0 {
			fps[fmt.Sprintf("c19:%s:%s:%s:%s:%s", strings.Join(tys, ""), c.Fault, chunkClass, c.Post, strings.Join(kinds, "+"))] = true
		}
		if len(res.Samples) < 2 && ref.errs > 0 && len(ref.rows) > 0 && len(c.Text) < 600 {
			res.Samples = append(res.Samples, map[string]interface{}{"seed": seed, "columns": c.Cols, "dst_cols": c.DstCols, "src_cols": c.SrcCols, "separator": c.Sep,
				"csv": string(c.Text), "chunks": c.Chunks, "fault": c.Fault, "fault_at": c.FaultAt, "cache_cap": c.CacheCap, "advances": c.Advances, "post": c.Post,
				"reference": map[string]int{"records": ref.records, "accepted": len(ref.rows), "rejected": ref.errs}})
		}
		if v != nil {
			key := v.Features["how"] + v.Features["type"]
			if seen[key] {
				continue
			}
			seen[key] = true
			m := shrinkC19(c, v.Features["how"], scratch)
			v2, _, _ := runC19(m, scratch, map[string]int64{})
			if v2 != nil {
				v = v2
			}
			res.Violations = append(res.Violations, v)
		}
	}
	res.Hash = fmt.Sprintf("%016x", hh)
	for f := range fps {
		res.Fingerprints = append(res.Fingerprints, f)
	}
}
