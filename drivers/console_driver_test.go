package main

// Overlay driver for property C20 (compiled into cmd/console's test binary by
// /verif/drivers/run_driver.sh; never part of /repo). Terminal.ReadLine is the
// real code; the tty is a simulated reader that delivers the typed/pasted
// byte stream in seeded chunks and ends it at a seeded point.

import (
	"encoding/json"
	"fmt"
	"io"
	"os"
	"path/filepath"
	"strconv"
	"strings"
	"syscall"
	"testing"
	"time"
	"unicode"
	"unsafe"

	"github.com/mk6i/mkdb/engine"
	"github.com/mk6i/mkdb/sql"
	"github.com/mk6i/mkdb/storage"
	"golang.org/x/term"
	"verif/sim/core"
)

type c20Case struct {
	Seed  uint64     `json:"seed"`
	Stmts [][]string `json:"stmts"` // tokens of each statement, without the terminating ";"
	// Sep[i][j]: separator written after token j of statement i: " " or "\r" (Enter);
	// the separator after the last token precedes the ";"
	Sep [][]string `json:"sep"`
	// After[i]: what follows the ";" of statement i: "\r" (Enter), " " (next statement on the same line), " \r"
	After  []string `json:"after"`
	Mode   string   `json:"mode"`   // typed | chunked | paste
	Chunks []int    `json:"chunks"` // read sizes, cycled
	EOFAt  int      `json:"eof_at"` // byte offset at which the reader reports EOF (-1: after the last byte)
	// EditSeed != 0 (typed / chunked only): the typist makes corrections with the
	// line editor - a wrong rune erased with backspace, two runes typed in the
	// wrong order and fixed with cursor-left, a junk word erased with ^W. The
	// net text of every line is unchanged.
	EditSeed uint64 `json:"edit_seed,omitempty"`
	// MidEnter (with EditSeed): now and then the typist fixes the last two runes
	// of a line's last word with cursor-left and presses Enter right there, with
	// the cursor still inside the line - as in any shell, Enter takes the whole
	// line and the next line continues the entry at its end.
	MidEnter bool `json:"mid_enter,omitempty"`
	// PTY: the statements are real INSERTs (some into a table that does not
	// exist); the keystrokes go to a pseudo terminal and the console's real
	// read-execute loop (runTerminal in main.go) runs on its other end, with a
	// real engine session behind it. What the table holds afterwards is compared.
	PTY bool `json:"pty,omitempty"`

	// lfSplit (filled by stream()): tokens into which the typist put a line
	// feed, between the last two runes
	lfSplit map[[2]int]bool
}

// typed renders token t as keystrokes, with corrections drawn from *x (xorshift state; 0 = none).
func typed(t string, x *uint64, wordStart bool) string {
	if *x == 0 {
		return t
	}
	next := func(n int) int {
		*x ^= *x << 13
		*x ^= *x >> 7
		*x ^= *x << 17
		return int(*x % uint64(n))
	}
	var sb strings.Builder
	if wordStart && next(12) == 0 {
		sb.WriteString([]string{"junk", "x;y", "'q"}[next(3)])
		sb.WriteByte(23) // ^W
	}
	if wordStart && next(14) == 0 {
		// a look into the history and back: Up j times, Down j times (more than
		// the history holds does nothing extra); the pending text returns
		j := 1 + next(4)
		up, down := []string{"\x1b[A", "\x10"}[next(2)], []string{"\x1b[B", "\x0e"}[next(2)]
		for k := 0; k < j; k++ {
			sb.WriteString(up)
		}
		for k := 0; k < j; k++ {
			sb.WriteString(down)
		}
	}
	rs := []rune(t)
	for i := 0; i < len(rs); i++ {
		switch k := next(16); {
		case k == 0:
			sb.WriteString([]string{"x", ";", "'", "\"", "\u00e9", "\u4e16", "\U0001F600"}[next(7)])
			sb.WriteString([]string{"\x7f", "\x08"}[next(2)])
			sb.WriteRune(rs[i])
		case k == 1 && i+1 < len(rs):
			sb.WriteRune(rs[i+1])
			sb.WriteString([]string{"\x1b[D", "\x02"}[next(2)])
			sb.WriteRune(rs[i])
			sb.WriteString([]string{"\x1b[C", "\x06", "\x1b[F", "\x05"}[next(4)])
			i++
		default:
			sb.WriteRune(rs[i])
		}
	}
	return sb.String()
}

type simTTY struct {
	data   []byte
	pos    int
	chunks []int
	ci     int
	eofAt  int
	reads  int
}

func (s *simTTY) Read(p []byte) (int, error) {
	limit := len(s.data)
	if s.eofAt >= 0 && s.eofAt < limit {
		limit = s.eofAt
	}
	if s.pos >= limit {
		return 0, io.EOF
	}
	n := 1
	if len(s.chunks) > 0 {
		n = s.chunks[s.ci%len(s.chunks)]
		s.ci++
	}
	if n > len(p) {
		n = len(p)
	}
	if n > limit-s.pos {
		n = limit - s.pos
	}
	copy(p, s.data[s.pos:s.pos+n])
	s.pos += n
	s.reads++
	return n, nil
}
func (s *simTTY) Write(p []byte) (int, error) { return len(p), nil }

func (c *c20Case) stream() (data []byte, ends []int) {
	var sb strings.Builder
	c.lfSplit = map[[2]int]bool{}
	paste := c.Mode == "paste"
	edit := c.EditSeed
	if paste {
		edit = 0
	}
	for i, toks := range c.Stmts {
		if paste {
			sb.WriteString("\x1b[200~")
		}
		if c.MidEnter && edit != 0 && i > 0 && strings.HasSuffix(c.After[i-1], "\r") && (edit>>12)%5 == 0 {
			// the typist recalls the last statement, thinks better of it, clears
			// the line (Home, ^K) and presses Enter on the empty line: nothing is
			// handed over, and nothing of it may linger
			sb.WriteString([]string{"\x1b[A", "\x10"}[int(edit>>16)%2])
			sb.WriteString("\x01\x0b\r")
		}
		for j, t := range toks {
			if strings.Contains(t, "\r") {
				// a raw string typed over two lines is typed plainly: Enter always
				// takes the whole line, so a correction that presses it with the
				// cursor inside the line would not give the text that is meant
				sb.WriteString(t)
				sb.WriteString(c.Sep[i][j])
				continue
			}
			if edit != 0 && strings.HasPrefix(c.Sep[i][j], "\r") && j+1 < len(toks) {
				// second thoughts after Enter: the typist first ended the line with
				// something else, pressed Enter, then erased back across the line
				// break and typed what was meant (the entry is still pending, so
				// the line editor holds all of it)
				edit ^= edit << 13
				edit ^= edit >> 7
				edit ^= edit << 17
				if edit%3 == 0 {
					wrong := []string{"'oops", "\"x y", "x1", "'a;b", "(", "''", "'\u00e9;", t + "'"}[int(edit>>8)%8]
					sb.WriteString(wrong)
					sb.WriteString("\r")
					bs := []string{"\x7f", "\x08"}[int(edit>>16)%2]
					for k := 0; k < len([]rune(wrong))+1; k++ {
						sb.WriteString(bs)
					}
				}
			}
			if rs := []rune(t); c.MidEnter && edit != 0 && strings.HasPrefix(c.Sep[i][j], "\r") && j+1 < len(toks) && len(rs) >= 2 && (edit>>20)%4 == 0 {
				n := len(rs)
				sb.WriteString(string(rs[:n-2]))
				sb.WriteRune(rs[n-1])
				sb.WriteString([]string{"\x1b[D", "\x02"}[int(edit>>24)%2])
				sb.WriteRune(rs[n-2])
				if (edit>>28)%3 == 0 && !strings.HasPrefix(t, "//") && !strings.HasPrefix(t, "/*") && !strings.ContainsAny(t, "'\"`") {
					// ^J there - a line feed between the last two runes of the word,
					// which are two words now -, then Enter: one more line break, at
					// the end of the line
					sb.WriteString("\n")
					c.lfSplit[[2]int{i, j}] = true
				}
				edit ^= edit << 13
				edit ^= edit >> 7
				edit ^= edit << 17
				if edit == 0 {
					edit = 1
				}
			} else {
				sb.WriteString(typed(t, &edit, true))
			}
			sb.WriteString(c.Sep[i][j])
		}
		sb.WriteString(";")
		after := c.After[i]
		if paste {
			// the Enter that submits is typed after the paste
			body := strings.TrimRight(after, "\r")
			sb.WriteString(body)
			sb.WriteString("\x1b[201~")
			sb.WriteString(after[len(body):])
		} else {
			sb.WriteString(after)
		}
		ends = append(ends, sb.Len())
	}
	return []byte(sb.String()), ends
}

// normalise collapses whitespace outside quotes and trims.
func normalise(s string) string {
	var sb strings.Builder
	var q rune
	space := false
	esc := false
	rs := []rune(s)
	comment := 0 // 1: // up to the end of the line, 2: /* */ (both are white space to the engine's scanner)
	for i := 0; i < len(rs); i++ {
		r := rs[i]
		if comment == 1 {
			if r == '\n' {
				comment = 0
				space = true
			}
			continue
		}
		if comment == 2 {
			if r == '/' && rs[i-1] == '*' {
				comment = 0
				space = true
			}
			continue
		}
		if q == '`' {
			// raw string: no escapes, ends at the next back quote
			sb.WriteRune(r)
			if r == '`' {
				q = 0
			}
			continue
		}
		if q != 0 {
			sb.WriteRune(r)
			switch {
			case esc:
				esc = false
			case r == '\\':
				esc = true
			case r == q:
				q = 0
			}
			continue
		}
		if r == '/' && i+1 < len(rs) && (rs[i+1] == '/' || rs[i+1] == '*') {
			comment = 1
			if rs[i+1] == '*' {
				comment = 2
				i++
			}
			continue
		}
		if r == ' ' || r == '\t' || r == '\n' || r == '\r' || unicode.IsSpace(r) {
			space = true
			continue
		}
		if space && sb.Len() > 0 && r != ';' {
			// (white space before the terminating semicolon carries no meaning)
			sb.WriteByte(' ')
		}
		space = false
		sb.WriteRune(r)
		if r == '\'' || r == '"' || r == '`' {
			q = r
		}
	}
	return sb.String()
}

// expected: statements whose submitting Enter was delivered before EOF
func (c *c20Case) expected() []string {
	data, ends := c.stream()
	limit := len(data)
	if c.EOFAt >= 0 && c.EOFAt < limit {
		limit = c.EOFAt
	}
	// a statement is submitted when the first Enter at or after its ";" has been delivered
	var out []string
	var sb strings.Builder
	pos := 0
	var pending []string
	flush := func(upto int) {
		// position of the next "\r" at or after upto
		for _, p := range pending {
			out = append(out, p)
		}
		pending = nil
	}
	paste := c.Mode == "paste"
	for i, toks := range c.Stmts {
		sb.Reset()
		if paste {
			pos += 6
		}
		for j, t := range toks {
			if rs := []rune(t); c.lfSplit[[2]int{i, j}] && len(rs) >= 2 {
				sb.WriteString(string(rs[:len(rs)-1]) + "\n" + string(rs[len(rs)-1:]))
			} else {
				sb.WriteString(strings.ReplaceAll(t, "\r", "\n"))
			}
			if strings.ContainsAny(c.Sep[i][j], "\r\n") {
				sb.WriteString("\n") // ends a // comment
			} else if c.Sep[i][j] != "" {
				sb.WriteString(" ")
			}
			pos += len(t) + len(c.Sep[i][j])
		}
		sb.WriteString(";")
		pos++
		pending = append(pending, normalise(sb.String()))
		after := c.After[i]
		pos += len(after)
		if paste {
			pos += 6
		}
		pos = ends[i] // positions in the keystroke stream (corrections included)
		if strings.HasSuffix(after, "\r") {
			if pos <= limit {
				flush(pos)
			} else {
				pending = nil
				break
			}
		}
	}
	return out
}

// longestLine: the largest number of bytes the editor has to hold before a submit.
func longestLine(data []byte) int {
	longest, cur := 0, 0
	prevSemi := false
	for _, b := range data {
		cur++
		if b == ';' {
			prevSemi = true
		} else if b == '\r' && prevSemi {
			if cur > longest {
				longest = cur
			}
			cur = 0
			prevSemi = false
		} else if b != ' ' {
			prevSemi = false
		}
	}
	if cur > longest {
		longest = cur
	}
	return longest
}

func runC20(c *c20Case) (got []string, reads int, err error, panicMsg string) {
	data, _ := c.stream()
	tty := &simTTY{data: data, chunks: c.Chunks, eofAt: c.EOFAt}
	term := NewTerminal(tty, "")
	term.SetPrompt("> ")
	defer func() {
		if r := recover(); r != nil {
			panicMsg = fmt.Sprint(r)
		}
	}()
	for iter := 0; iter < 100000; iter++ {
		lines, e := term.ReadLine()
		for _, l := range lines {
			got = append(got, normalise(l))
		}
		if e == io.EOF {
			return got, tty.reads, nil, ""
		}
		if e != nil && e != ErrPasteIndicator {
			return got, tty.reads, e, ""
		}
	}
	return got, tty.reads, fmt.Errorf("ReadLine loop did not end"), ""
}

// ---- the console's own loop over a pseudo terminal ----

func openPTY() (master, slave *os.File, err error) {
	master, err = os.OpenFile("/dev/ptmx", os.O_RDWR|syscall.O_NOCTTY, 0)
	if err != nil {
		return nil, nil, err
	}
	unlock := int32(0)
	if _, _, e := syscall.Syscall(syscall.SYS_IOCTL, master.Fd(), syscall.TIOCSPTLCK, uintptr(unsafe.Pointer(&unlock))); e != 0 {
		master.Close()
		return nil, nil, e
	}
	var n uint32
	if _, _, e := syscall.Syscall(syscall.SYS_IOCTL, master.Fd(), syscall.TIOCGPTN, uintptr(unsafe.Pointer(&n))); e != 0 {
		master.Close()
		return nil, nil, e
	}
	slave, err = os.OpenFile(fmt.Sprintf("/dev/pts/%d", n), os.O_RDWR|syscall.O_NOCTTY, 0)
	if err != nil {
		master.Close()
		return nil, nil, err
	}
	return master, slave, nil
}

// ptyExpected: the rows the table must hold: one per INSERT INTO t, in order.
func (c *c20Case) ptyExpected() [][2]string {
	var out [][2]string
	for _, toks := range c.Stmts {
		if len(toks) == 9 && toks[2] == "t" {
			lit := toks[7]
			out = append(out, [2]string{toks[5], lit[1 : len(lit)-1]})
		}
	}
	return out
}

var ptyScratchN int

func checkC20PTY(c *c20Case) (v *core.DriverViolation, harness string) {
	mk := func(kind, detail string) *core.DriverViolation {
		b, _ := json.Marshal(c)
		return &core.DriverViolation{Prop: "C20", Oracle: "O-stream", Features: map[string]string{"how": kind}, Detail: detail, Seed: c.Seed, Case: b}
	}
	base := os.Getenv("SIM_SCRATCH")
	if base == "" {
		base = os.TempDir()
	}
	ptyScratchN++
	dir := filepath.Join(base, fmt.Sprintf("c20pty-%d-%d", os.Getpid(), ptyScratchN))
	if err := os.MkdirAll(dir, 0755); err != nil {
		return nil, err.Error()
	}
	defer os.RemoveAll(dir)
	cwd, _ := os.Getwd()
	if err := os.Chdir(dir); err != nil {
		return nil, err.Error()
	}
	defer os.Chdir(cwd)
	if err := storage.InitStorage(); err != nil {
		return nil, "InitStorage: " + err.Error()
	}
	sess := &engine.Session{}
	for _, q := range []string{"CREATE DATABASE d", "USE d", "CREATE TABLE t (k INT, s VARCHAR(250))"} {
		if err := sess.ExecQuery(q); err != nil {
			return nil, q + ": " + err.Error()
		}
	}
	defer sess.Close()
	master, slave, err := openPTY()
	if err != nil {
		return nil, "no pseudo terminal: " + err.Error()
	}
	defer master.Close()
	defer slave.Close()
	if _, err := term.MakeRaw(int(slave.Fd())); err != nil {
		return nil, "raw mode: " + err.Error()
	}
	savedIn, err := syscall.Dup(0)
	if err != nil {
		return nil, err.Error()
	}
	if err := syscall.Dup2(int(slave.Fd()), 0); err != nil {
		return nil, err.Error()
	}
	defer func() {
		syscall.Dup2(savedIn, 0)
		syscall.Close(savedIn)
	}()
	data, _ := c.stream()
	data = append(data, 4) // ^D on the empty line after the last Enter: leave the console
	go func() {
		for len(data) > 0 {
			n, err := master.Write(data)
			if err != nil {
				return
			}
			data = data[n:]
		}
	}()
	type outcome struct {
		err   error
		panic string
	}
	done := make(chan outcome, 1)
	go func() {
		var o outcome
		defer func() {
			if r := recover(); r != nil {
				o.panic = fmt.Sprint(r)
			}
			done <- o
		}()
		o.err = runTerminal(sess)
	}()
	var o outcome
	select {
	case o = <-done:
	case <-time.After(30 * time.Second):
		return mk("pty-hang", "the console's loop did not return within 30 s after ^D"), ""
	}
	if o.panic != "" {
		return mk("pty-panic", "the console's loop panicked: "+o.panic), ""
	}
	if o.err != nil {
		return mk("pty-error", "the console's loop returned "+o.err.Error()), ""
	}
	ts := sql.NewTokenScanner(strings.NewReader("SELECT * FROM t"))
	tl := sql.TokenList{}
	for ts.Next() {
		tl.Add(ts.Cur())
	}
	p := sql.Parser{TokenList: tl}
	stmt, err := p.Parse()
	if err != nil {
		return nil, err.Error()
	}
	rows, _, err := engine.EvaluateSelect(stmt.(sql.Select), sess.RelationService)
	if err != nil {
		return mk("pty-select", "SELECT * FROM t after the session: "+err.Error()), ""
	}
	want := c.ptyExpected()
	for i := 0; i < len(want) || i < len(rows); i++ {
		switch {
		case i >= len(rows):
			return mk("pty-statement-lost", fmt.Sprintf("INSERT number %d (k = %s) was typed and is valid, but its row is not in the table (%d of %d rows)", i, want[i][0], len(rows), len(want))), ""
		case i >= len(want):
			return mk("pty-statement-extra", fmt.Sprintf("the table holds %d rows, %d INSERTs were typed: extra row %v", len(rows), len(want), rows[i].Vals)), ""
		default:
			k, _ := rows[i].Vals[0].(int64)
			sv, _ := rows[i].Vals[1].(string)
			if strconv.FormatInt(k, 10) != want[i][0] || sv != want[i][1] {
				return mk("pty-statement-altered", fmt.Sprintf("row %d: typed (%s, %q), stored (%d, %q)", i, want[i][0], want[i][1], k, sv)), ""
			}
		}
	}
	return nil, ""
}

// genC20PTY: a short console session of real statements for checkC20PTY.
func genC20PTY(seed uint64) *c20Case {
	r := core.NewRng(seed ^ 0x9791)
	c := &c20Case{Seed: seed, EOFAt: -1, PTY: true, Mode: "typed"}
	n := r.Range(2, 14)
	multi := r.Chance(0.7)
	for i := 0; i < n; i++ {
		q := "'" // (the engine takes double-quoted text for an identifier: literals are single-quoted)
		var sb strings.Builder
		for m := r.Range(0, 14); m > 0; m-- {
			switch r.Intn(7) {
			case 0:
				sb.WriteString(";")
			case 1:
				sb.WriteString(" ")
			case 2:
				sb.WriteString([]string{"é", "漢", "ü", "😀"}[r.Intn(4)])
			case 3:
				if q == "'" {
					sb.WriteString("\"")
				} else {
					sb.WriteString("'")
				}
			default:
				sb.WriteByte("abcdefghijklmnopqrstuvwxyz0123456789,.()=<>"[r.Intn(43)])
			}
		}
		table := "t"
		if r.Chance(0.3) {
			table = "nosuch" // refused by the engine: the statements after it must still arrive
		}
		toks := []string{"INSERT", "INTO", table, "VALUES", "(", strconv.Itoa(1000 + i), ",", q + sb.String() + q, ")"}
		var seps []string
		for j := range toks {
			switch {
			case j == len(toks)-1:
				seps = append(seps, []string{"", " "}[r.Intn(2)])
			case r.Chance(0.12):
				seps = append(seps, "\r") // the statement goes on on the next line
			default:
				seps = append(seps, " ")
			}
		}
		c.Stmts = append(c.Stmts, toks)
		c.Sep = append(c.Sep, seps)
		switch {
		case i == n-1:
			c.After = append(c.After, "\r")
		case multi && r.Chance(0.5):
			c.After = append(c.After, " ") // the next statement on the same line
		default:
			c.After = append(c.After, "\r")
		}
	}
	if r.Chance(0.4) {
		c.EditSeed = r.U64() | 1
	}
	return c
}

// wedged: a case made the console spin or block for good. The goroutine that
// runs it cannot be stopped, so the shard reports what it has and exits.
var wedged bool

// checkC20 runs one case under a watchdog: a console that does not come back
// within 20 s of wall clock (the longest ordinary case takes milliseconds)
// hangs - the statements typed after that point never reach the engine.
func checkC20(c *c20Case) *core.DriverViolation {
	if wedged {
		return nil
	}
	done := make(chan *core.DriverViolation, 1)
	go func() { done <- checkC20Raw(c) }()
	select {
	case v := <-done:
		return v
	case <-time.After(20 * time.Second):
		wedged = true
		b, _ := json.Marshal(c)
		return &core.DriverViolation{Prop: "C20", Oracle: "O-live", Features: map[string]string{"how": "hang"}, Detail: "the console did not come back within 20 s of wall clock on this input: it spins or blocks, later statements never reach the engine", Seed: c.Seed, Case: b}
	}
}

func checkC20Raw(c *c20Case) *core.DriverViolation {
	if c.PTY {
		v, h := checkC20PTY(c)
		if h != "" {
			ptyHarness = h
		}
		return v
	}
	want := c.expected()
	got, _, err, pmsg := runC20(c)
	mk := func(kind, detail string) *core.DriverViolation {
		b, _ := json.Marshal(c)
		return &core.DriverViolation{Prop: "C20", Oracle: "O-stream", Features: map[string]string{"how": kind}, Detail: detail, Seed: c.Seed, Case: b}
	}
	if pmsg != "" {
		return mk("panic", "ReadLine panicked: "+pmsg)
	}
	if err != nil {
		return mk("error", "ReadLine returned "+err.Error())
	}
	for i := 0; i < len(want) || i < len(got); i++ {
		switch {
		case i >= len(got):
			return mk("statement-lost", fmt.Sprintf("statement %d %q was typed but never handed to the engine (got %d of %d)", i, want[i], len(got), len(want)))
		case i >= len(want):
			return mk("statement-extra", fmt.Sprintf("the engine was handed %q, which was not typed as a statement (%d typed)", got[i], len(want)))
		case got[i] != want[i]:
			kind := "statement-altered"
			if strings.Count(want[i], ";") > 1 && len(got[i]) > 0 && strings.HasPrefix(want[i], got[i][:len(got[i])-1]) {
				kind = "split-inside-literal"
			}
			return mk(kind, fmt.Sprintf("statement %d: typed %q, engine was handed %q", i, want[i], got[i]))
		}
	}
	return nil
}

// ---- generator ----

// ptyHarness: set when a pseudo-terminal case could not be set up (harness trouble, not a verdict)
var ptyHarness string

func genC20(seed uint64, thorough bool) *c20Case {
	if core.NewRng(seed ^ 0x97).Chance(0.003) {
		return genC20PTY(seed)
	}
	r := core.NewRng(seed ^ 0xc20)
	c := &c20Case{Seed: seed, EOFAt: -1}
	n := r.Range(1, 6)
	if thorough {
		n = r.Range(1, 14)
	}
	if r.Chance(0.01) {
		n = r.Range(95, 130) // more statements than the history ring holds
	}
	words := []string{"SELECT", "*", "FROM", "t", "WHERE", "a", "=", "INSERT", "INTO", "VALUES", "(", ")", ",", "1", "22", "x1", "<=", "AND", "OR", "UPDATE", "SET", "DELETE", "USE", "db", "CREATE", "TABLE", "k", "INT", "name"}
	special := r.Chance(0.6)
	// extras (a third of the cases): what the engine's scanner knows beyond
	// words and quoted literals - raw strings, both kinds of comments -, TABs
	// inside literals, a line feed (^J, or pasted) as a line break, Enter with
	// the cursor inside the line
	extras := core.NewRng(seed ^ 0xe3).Chance(0.33)
	remark := func() string {
		var sb strings.Builder
		m := r.Range(0, 8)
		for i := 0; i < m; i++ {
			sb.WriteString([]string{"x", " ", ";", "'", "\"", "`", "don't", "é", "old; obsolete", "(", "1"}[r.Intn(11)])
		}
		return sb.String()
	}
	odd := func() (tok string, lineComment bool) {
		switch r.Intn(3) {
		case 0:
			return "/*" + strings.ReplaceAll(remark(), "*/", "") + "*/", false
		case 1:
			body := strings.ReplaceAll(remark(), "`", "")
			if r.Chance(0.3) {
				// a raw string typed over two lines: "\r" in a token is the Enter key
				// and stands for a line break of the literal
				br := []rune(body)
				k := r.Intn(len(br) + 1)
				body = string(br[:k]) + "\r" + string(br[k:])
			}
			return "`" + body + "`", false
		default:
			return "// " + strings.TrimRight(strings.ReplaceAll(remark(), "\\", ""), " "), true
		}
	}
	lit := func() string {
		q := "'"
		other := "\""
		if r.Chance(0.25) {
			q, other = other, q
		}
		var sb strings.Builder
		sb.WriteString(q)
		m := r.Range(0, 12)
		if r.Chance(0.04) {
			m = r.Range(70, 330) // longer than the terminal width / the 256-byte input buffer
		}
		for i := 0; i < m; i++ {
			switch r.Intn(9) {
			case 0:
				if special {
					sb.WriteString(";")
				} else {
					sb.WriteString(":")
				}
			case 1:
				sb.WriteString(" ")
			case 2:
				if special {
					sb.WriteString(other)
				}
			case 3:
				if extras && r.Chance(0.3) {
					sb.WriteString("\t") // tab-separated text inside a literal
					break
				}
				sb.WriteString([]string{"é", "漢", "ü", "–", "😀", "𝄞"}[r.Intn(6)])
			case 4:
				if special && r.Chance(0.3) {
					sb.WriteString("; ")
				} else if special && r.Chance(0.25) {
					sb.WriteString("\\" + q) // it\'s: the engine's scanner takes the quote as part of the literal
				} else {
					sb.WriteString("x")
				}
			default:
				sb.WriteByte("abcdefghijklmnopqrstuvwxyz0123456789,.()=<>!*"[r.Intn(45)])
			}
		}
		sb.WriteString(q)
		return sb.String()
	}
	multi := r.Chance(0.5) // several statements per line possible
	for i := 0; i < n; i++ {
		nt := r.Range(1, 10)
		if r.Chance(0.03) {
			nt = r.Range(30, 70) // a statement over many lines / a line longer than 256 bytes
		}
		if r.Chance(0.004) {
			nt = r.Range(700, 1500) // a multi-row INSERT of several thousand characters
		}
		var toks, seps []string
		if i > 0 && r.Chance(0.06) {
			// the same statement typed again
			c.Stmts = append(c.Stmts, append([]string(nil), c.Stmts[i-1]...))
			c.Sep = append(c.Sep, append([]string(nil), c.Sep[i-1]...))
			if strings.HasPrefix(c.Stmts[i][0], "//") {
				// (see odd(): no remark directly behind the ";" of the line)
				c.After[i-1] = "\r"
			}
			if i == n-1 {
				c.After = append(c.After, "\r")
			} else {
				c.After = append(c.After, "\r")
			}
			continue
		}
		for j := 0; j < nt; j++ {
			lineComment := false
			if extras && r.Chance(0.12) {
				var t string
				t, lineComment = odd()
				if lineComment && j == 0 && i > 0 && !strings.HasSuffix(c.After[i-1], "\r") {
					// "a; // remark" + Enter: whether that Enter submits "a;" is
					// the console's choice (before the remark was known to it, it
					// did not; now it does) - not a question of C20
					t, lineComment = "/*"+t[2:]+"*/", false
				}
				toks = append(toks, t)
			} else if r.Chance(0.3) {
				toks = append(toks, lit())
			} else {
				toks = append(toks, words[r.Intn(len(words))])
			}
			switch {
			case lineComment:
				// the remark ends with its line
				seps = append(seps, []string{"\r", " \r", "\r\r"}[r.Intn(3)])
			case extras && j < nt-1 && r.Chance(0.05):
				seps = append(seps, []string{"\n", " \n", "\n "}[r.Intn(3)]) // a line feed between two words
			case j == nt-1 && r.Chance(0.6):
				seps = append(seps, "") // ";" directly after the last token
			case r.Chance(0.04):
				// an empty (or blank) line in the middle of a statement
				seps = append(seps, []string{"\r\r", "\r \r", " \r\r\r"}[r.Intn(3)])
			case r.Chance(0.25):
				seps = append(seps, "\r")
			case j < nt-1 && r.Chance(0.04):
				seps = append(seps, []string{"\t", " \t", "\t\t"}[r.Intn(3)]) // the TAB key between two words
			default:
				seps = append(seps, " ")
			}
		}
		c.Stmts = append(c.Stmts, toks)
		c.Sep = append(c.Sep, seps)
		switch {
		case i == n-1:
			c.After = append(c.After, "\r")
		case multi && r.Chance(0.4):
			c.After = append(c.After, " ")
		case r.Chance(0.2):
			c.After = append(c.After, " \r")
		default:
			c.After = append(c.After, "\r")
		}
	}
	switch r.Intn(4) {
	case 0:
		c.Mode = "typed"
	case 1, 2:
		c.Mode = "chunked"
		k := r.Range(1, 6)
		for i := 0; i < k; i++ {
			if r.Chance(0.5) {
				c.Chunks = append(c.Chunks, r.Range(1, 7))
			} else {
				c.Chunks = append(c.Chunks, r.Range(1, 256))
			}
		}
	default:
		c.Mode = "paste"
		k := r.Range(1, 5)
		for i := 0; i < k; i++ {
			c.Chunks = append(c.Chunks, r.Range(1, 256))
		}
		// a pasted statement is one paste; statements sharing a line would put an Enter-less paste before another
		for i := range c.After {
			c.After[i] = "\r"
			// pasted text often carries white space after the semicolon: blanks, a
			// tab, the line feed of the copied line
			if r.Chance(0.15) {
				c.After[i] = []string{"\t", "\n", " \t ", "  ", "\u00a0", "\t\n"}[r.Intn(6)] + "\r"
			}
		}
	}
	if c.Mode != "paste" {
		// typed white space after the semicolon other than a blank
		for i := range c.After {
			if strings.HasSuffix(c.After[i], "\r") && r.Chance(0.05) {
				c.After[i] = []string{"\u00a0", "\t", "\u2003", " \u00a0 "}[r.Intn(4)] + "\r"
			}
		}
	}
	if c.Mode != "paste" && r.Chance(0.2) {
		c.EditSeed = r.U64() | 1
		c.MidEnter = extras
	}
	if r.Chance(0.25) {
		data, _ := c.stream()
		c.EOFAt = r.Intn(len(data) + 1)
	}
	return c
}

func shrinkC20(c *c20Case, sig string) *c20Case {
	// minimisation is bounded: a case of a hundred statements has thousands of
	// tokens to try; what is left after 25 s is reported as it is
	deadline := time.Now().Add(25 * time.Second)
	fails := func(x *c20Case) bool {
		if time.Now().After(deadline) {
			return false
		}
		v := checkC20(x)
		return v != nil && v.Features["how"] == sig
	}
	best := c
	clone := func(x *c20Case) *c20Case {
		var y c20Case
		b, _ := json.Marshal(x)
		json.Unmarshal(b, &y)
		return &y
	}
	for changed := true; changed; {
		changed = false
		for i := len(best.Stmts) - 1; i >= 0 && len(best.Stmts) > 1; i-- {
			y := clone(best)
			y.Stmts = append(y.Stmts[:i], y.Stmts[i+1:]...)
			y.Sep = append(y.Sep[:i], y.Sep[i+1:]...)
			y.After = append(y.After[:i], y.After[i+1:]...)
			y.After[len(y.After)-1] = "\r"
			y.EOFAt = -1
			if fails(y) {
				best, changed = y, true
			}
		}
		for i := range best.Stmts {
			if best.PTY {
				break // the statements of a pseudo-terminal case are real SQL: only whole statements are dropped
			}
			for j := len(best.Stmts[i]) - 1; j >= 0 && len(best.Stmts[i]) > 1; j-- {
				y := clone(best)
				y.Stmts[i] = append(y.Stmts[i][:j], y.Stmts[i][j+1:]...)
				y.Sep[i] = append(y.Sep[i][:j], y.Sep[i][j+1:]...)
				y.EOFAt = -1
				if fails(y) {
					best, changed = y, true
				}
			}
		}
		if best.EditSeed != 0 {
			y := clone(best)
			y.EditSeed = 0
			y.EOFAt = -1
			if fails(y) {
				best, changed = y, true
			}
		}
		if best.Mode != "typed" {
			y := clone(best)
			y.Mode, y.Chunks = "typed", nil
			if fails(y) {
				best, changed = y, true
			}
		}
		if best.EOFAt >= 0 {
			y := clone(best)
			y.EOFAt = -1
			if fails(y) {
				best, changed = y, true
			}
		}
	}
	return best
}

func TestVerifC20(t *testing.T) {
	if os.Getenv("SIM_DRIVER") != "C20" {
		t.Skip("driver not selected")
	}
	res := &core.DriverResult{Prop: "C20", Stats: map[string]int64{}}
	defer res.Print()
	rp := os.Getenv("VERIF_REPLAY_CASE")
	if f := os.Getenv("VERIF_REPLAY_CASE_FILE"); f != "" {
		if b, err := os.ReadFile(f); err == nil {
			rp = string(b)
		}
	}
	if rp != "" {
		var c c20Case
		if err := json.Unmarshal([]byte(rp), &c); err != nil {
			res.Harness = err.Error()
			return
		}
		res.Evals = 1
		if os.Getenv("C20_DUMP") != "" && !c.PTY {
			data, _ := c.stream()
			got, _, _, _ := runC20(&c)
			fmt.Fprintf(os.Stderr, "STREAM %q\nWANT %q\nGOT  %q\n", data, c.expected(), got)
		}
		if v := checkC20(&c); v != nil {
			res.Violations = append(res.Violations, v)
		}
		res.Harness = ptyHarness
		if wedged {
			res.Print()
			os.Exit(0)
		}
		return
	}
	base, _ := strconv.ParseUint(os.Getenv("SIM_SEED_BASE"), 10, 64)
	shard, _ := strconv.Atoi(os.Getenv("SIM_SHARD"))
	nshards, _ := strconv.Atoi(os.Getenv("SIM_NSHARDS"))
	if nshards < 1 {
		nshards = 1
	}
	budget, _ := strconv.Atoi(os.Getenv("SIM_BUDGET_SEC"))
	if budget < 1 {
		budget = 10
	}
	thorough := os.Getenv("VERIF_TIER") == "thorough"
	deadline := time.Now().Add(time.Duration(budget) * time.Second)
	fps := map[string]bool{}
	seen := map[string]bool{}
	res.Seeds[0] = base + uint64(shard)
	for i := uint64(shard); time.Now().Before(deadline) && len(res.Violations) < 3; i += uint64(nshards) {
		seed := base + i
		res.Seeds[1] = seed
		c := genC20(seed, thorough)
		if d, _ := c.stream(); longestLine(d) > 3500 {
			res.Stats["probe_line_over_3500_bytes"]++
		}
		res.Evals++
		data, _ := c.stream()
		want := c.expected()
		res.Stats["statements_typed"] += int64(len(c.Stmts))
		res.Stats["statements_submitted"] += int64(len(want))
		res.Stats["bytes"] += int64(len(data))
		res.Stats["mode_"+c.Mode]++
		if c.EditSeed != 0 && c.Mode != "paste" {
			res.Stats["probe_line_editor_corrections"]++
		}
		semis, quotes := false, false
		for _, st := range c.Stmts {
			for _, tk := range st {
				if len(tk) > 1 && (tk[0] == '\'' || tk[0] == '"') {
					if strings.Contains(tk, ";") {
						semis = true
					}
					if strings.ContainsAny(tk[1:len(tk)-1], "'\"") {
						quotes = true
					}
				}
			}
		}
		if semis {
			res.Stats["probe_semicolon_in_literal"]++
		}
		if quotes {
			res.Stats["probe_other_quote_in_literal"]++
		}
		if c.EOFAt >= 0 {
			res.Stats["fault_eof_mid_stream"]++
		}
		multiLine := false
		for _, sp := range c.Sep {
			for _, s := range sp {
				if s == "\r" {
					multiLine = true
				}
			}
		}
		if multiLine {
			res.Stats["probe_statement_across_lines"]++
		}
		if len(c.Stmts) > 1 && len(want) > 1 {
			fps[fmt.Sprintf("c20:%s:n%d:semi%v:q%v:ml%v:eof%v:ch%d", c.Mode, len(c.Stmts), semis, quotes, multiLine, c.EOFAt >= 0, len(c.Chunks))] = true
		}
		if len(res.Samples) < 2 && semis {
			res.Samples = append(res.Samples, map[string]interface{}{"seed": seed, "mode": c.Mode, "stream": string(data), "chunks": c.Chunks, "eof_at": c.EOFAt, "expected": want})
		}
		if c.PTY {
			res.Stats["probe_console_loop_over_pty"]++
		}
		v := checkC20(c)
		if ptyHarness != "" {
			res.Harness = fmt.Sprintf("seed %d: %s", seed, ptyHarness)
			return
		}
		if v != nil {
			if seen[v.Features["how"]] {
				continue
			}
			seen[v.Features["how"]] = true
			if !wedged {
				m := shrinkC20(c, v.Features["how"])
				if v2 := checkC20(m); v2 != nil && v2.Features["how"] == v.Features["how"] {
					v = v2
				}
			}
			res.Violations = append(res.Violations, v)
		}
		if wedged {
			// a goroutine is stuck in the console code: report and leave at once
			for f := range fps {
				res.Fingerprints = append(res.Fingerprints, f)
			}
			res.Print()
			os.Exit(0)
		}
	}
	for f := range fps {
		res.Fingerprints = append(res.Fingerprints, f)
	}
}
