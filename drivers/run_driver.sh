#!/bin/bash
# run_driver.sh <C19|C20> <quick|thorough|build>: builds the overlay test binary of the
# package-main command against /repo's working tree and runs the driver shards.
cd "$(dirname "$0")/.." || exit 2
export GOFLAGS=-mod=mod GOPROXY=off GOSUMDB=off GOTOOLCHAIN=local
export VERIF_DIR="$(pwd)"
REPO=${VERIF_REPO:-/repo}
prop=$1; tier=${2:-quick}
case "$prop" in
  C19) pkg=cmd/csvimport; drv=csvimport_driver_test.go; bin=csvimport.test;;
  C20) pkg=cmd/console; drv=console_driver_test.go; bin=console.test;;
  *) echo "unknown driver $prop"; exit 2;;
esac
mkdir -p bin
# the driver file is added to the package; copies of storage files whose lock hooks had
# to be re-attached (bin/overlay_norm.json, written by run.sh build) are merged in
python3 - "$REPO/$pkg/zz_verif_driver_test.go" "$VERIF_DIR/drivers/$drv" "$VERIF_DIR/bin/overlay_norm.json" > bin/overlay_$prop.json <<'EOT' || { echo "HARNESS-TROUBLE: overlay"; exit 2; }
import json, os, sys
rep = {sys.argv[1]: sys.argv[2]}
if os.path.exists(sys.argv[3]):
    rep.update(json.load(open(sys.argv[3])).get("Replace", {}))
print(json.dumps({"Replace": rep}))
EOT
{ cat "$REPO/go.mod"; echo; echo "require verif/sim v0.0.0"; echo "replace verif/sim => $VERIF_DIR/sim"; } > bin/repo.alt.mod
cp "$REPO/go.sum" bin/repo.alt.sum
(cd "$REPO" && go test -c -vet=off -tags verif -overlay "$VERIF_DIR/bin/overlay_$prop.json" -modfile "$VERIF_DIR/bin/repo.alt.mod" -o "$VERIF_DIR/bin/$bin" ./$pkg) || { echo "HARNESS-TROUBLE: driver build failed"; exit 2; }
[ "$tier" = "build" ] && exit 0
exec ./bin/simcheck driver "$prop" "$tier" "$VERIF_DIR/bin/$bin"
