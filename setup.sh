#!/bin/sh
# Build the simulator from files on disk only (offline).
set -e
cd "$(dirname "$0")"
exec ./run.sh build
