#!/bin/bash
# run.sh build | <prop> <quick|thorough> | replay <file> | selftest <prop> [n]
# Rebuilds the simulator against /repo's current working tree (hooks on) and runs it.
# exit 0: property held on everything explored; 1: VIOLATION printed; 2: harness/build trouble.
cd "$(dirname "$0")" || exit 2
export GOFLAGS=-mod=mod GOPROXY=off GOSUMDB=off GOTOOLCHAIN=local
export VERIF_DIR="$(pwd)"
REPO=${VERIF_REPO:-/repo}
# race-detector build of the same simulator (tag verifrace): used by C13 as an
# extra monitor; the ordinary binary starts it for a share of its workers
build_race() {
  if [ "$REPO" != "/repo" ]; then
    (cd sim && go build -race -modfile=go.alt.mod -overlay "$VERIF_DIR/bin/overlay_norm.json" -tags "verif verifrace" -o ../bin/simcheck-race ./cmd/simcheck) || return 2
  else
    (cd sim && go build -race -overlay "$VERIF_DIR/bin/overlay_norm.json" -tags "verif verifrace" -o ../bin/simcheck-race ./cmd/simcheck) || return 2
  fi
}
build() {
  mkdir -p bin
  cp "$REPO/go.sum" sim/go.sum 2>/dev/null
  # lock hooks that an edit has separated from their mutex call are re-attached in a
  # compiled copy (sim/cmd/normhooks); on the unchanged tree the overlay is empty
  (cd sim && go build -o ../bin/normhooks ./cmd/normhooks) || return 2
  ./bin/normhooks "$REPO" "$VERIF_DIR/bin" || return 2
  if [ "$REPO" != "/repo" ]; then
    sed "s#=> /repo#=> $REPO#" sim/go.mod > sim/go.alt.mod; cp sim/go.sum sim/go.alt.sum
    (cd sim && go build -modfile=go.alt.mod -overlay "$VERIF_DIR/bin/overlay_norm.json" -tags verif -o ../bin/simcheck ./cmd/simcheck) || return 2
  else
    (cd sim && go build -overlay "$VERIF_DIR/bin/overlay_norm.json" -tags verif -o ../bin/simcheck ./cmd/simcheck) || return 2
  fi
}
case "$1" in
  build) build || { echo "HARNESS-TROUBLE: build failed"; exit 2; }; build_race || { echo "HARNESS-TROUBLE: race build failed"; exit 2; }; exit 0;;
  replay) build || { echo "HARNESS-TROUBLE: build failed"; exit 2; }
      if grep -q '"race": true' "$2" 2>/dev/null; then build_race || { echo "HARNESS-TROUBLE: race build failed"; exit 2; }; fi
      # replay files of the package-main drivers need the driver binary of the current tree
      if grep -q '"driver": true' "$2" 2>/dev/null; then
        dp=$(grep -o '"property": *"C[0-9]*"' "$2" | head -1 | grep -o 'C[0-9]*')
        ./drivers/run_driver.sh "$dp" build || { echo "HARNESS-TROUBLE: driver build failed"; exit 2; }
      fi
      exec ./bin/simcheck replay "$2";;
  selftest) build || { echo "HARNESS-TROUBLE: build failed"; exit 2; }; shift; exec ./bin/simcheck selftest "$@";;
  C19|C20) build || { echo "HARNESS-TROUBLE: build failed"; exit 2; }; exec ./drivers/run_driver.sh "$1" "${2:-quick}";;
  C*) build || { echo "HARNESS-TROUBLE: build failed"; exit 2; }
      if [ "$1" = "C13" ]; then build_race || { echo "HARNESS-TROUBLE: race build failed"; exit 2; }; fi
      tier=${2:-${VERIF_TIER:-quick}}
      exec ./bin/simcheck run "$1" "$tier";;
  *) echo "usage: run.sh build | <prop> <quick|thorough> | replay <file> | selftest <prop> [n]"; exit 2;;
esac
