#!/bin/bash
# run.sh build | <prop> <quick|thorough> | replay <file> | selftest <prop> [n]
# Rebuilds the simulator against /repo's current working tree (hooks on) and runs it.
# exit 0: property held on everything explored; 1: VIOLATION printed; 2: harness/build trouble.
cd "$(dirname "$0")" || exit 2
export GOFLAGS=-mod=mod GOPROXY=off GOSUMDB=off GOTOOLCHAIN=local
export VERIF_DIR="$(pwd)"
REPO=${VERIF_REPO:-/repo}
build() {
  mkdir -p bin
  cp "$REPO/go.sum" sim/go.sum 2>/dev/null
  if [ "$REPO" != "/repo" ]; then
    sed "s#=> /repo#=> $REPO#" sim/go.mod > sim/go.alt.mod; cp sim/go.sum sim/go.alt.sum
    (cd sim && go build -modfile=go.alt.mod -tags verif -o ../bin/simcheck ./cmd/simcheck) || return 2
  else
    (cd sim && go build -tags verif -o ../bin/simcheck ./cmd/simcheck) || return 2
  fi
}
case "$1" in
  build) build || { echo "HARNESS-TROUBLE: build failed"; exit 2; }; exit 0;;
  replay) build || { echo "HARNESS-TROUBLE: build failed"; exit 2; }; exec ./bin/simcheck replay "$2";;
  selftest) build || { echo "HARNESS-TROUBLE: build failed"; exit 2; }; shift; exec ./bin/simcheck selftest "$@";;
  C19|C20) build || { echo "HARNESS-TROUBLE: build failed"; exit 2; }; exec ./drivers/run_driver.sh "$1" "${2:-quick}";;
  C*) build || { echo "HARNESS-TROUBLE: build failed"; exit 2; }
      tier=${2:-${VERIF_TIER:-quick}}
      exec ./bin/simcheck run "$1" "$tier";;
  *) echo "usage: run.sh build | <prop> <quick|thorough> | replay <file> | selftest <prop> [n]"; exit 2;;
esac
