#!/bin/bash
# trymutant.sh <patch.diff> <budget_sec> <prop> [prop...]
# Applies a seeded change to /repo, runs the given quick checks, and always reverts.
patch=$1; budget=$2; shift 2
cd /repo || exit 2
if ! git diff --quiet; then echo "/repo has uncommitted changes"; exit 2; fi
git apply "$patch" || { echo "patch does not apply"; exit 2; }
trap 'git -C /repo checkout -- . ; git -C /repo clean -fdq -- . >/dev/null 2>&1; git -C /verif checkout -- evidence' EXIT
cd /verif
for p in "$@"; do
  out=$(SIM_BUDGET_SEC=$budget ./run.sh $p quick 2>&1)
  rc=$?
  echo "== $p rc=$rc"
  echo "$out" | grep -E "^violation|^VIOLATION|HARNESS|^C[0-9]+ quick" | cut -c1-260 | head -8
done
