#!/bin/bash
# trymutant.sh <patch.diff> <budget_sec> <prop> [prop...]
# Applies a seeded change to /repo, runs the given quick checks, and always reverts.
# If the meta.json beside the patch names a base_commit (a bundle that no longer
# applies to the current tree), the change is applied to a scratch worktree at
# that commit instead and the checks run against it (VERIF_REPO).
patch=$1; budget=$2; shift 2
base=$(python3 -c "import json,os,sys;p=os.path.join(os.path.dirname('$patch'),'meta.json');print(json.load(open(p)).get('base_commit','') if os.path.exists(p) else '')" 2>/dev/null)
if [ -n "$base" ]; then
  wt=/tmp/wt/base-$$
  git -C /repo worktree add -q --detach $wt $base || exit 2
  trap 'git -C /repo worktree remove --force '$wt' >/dev/null 2>&1; git -C /verif checkout -- evidence' EXIT
  (cd $wt && git apply "$patch") || { echo "patch does not apply to $base"; exit 2; }
  export VERIF_REPO=$wt
else
  cd /repo || exit 2
  if ! git diff --quiet; then echo "/repo has uncommitted changes"; exit 2; fi
  git apply "$patch" || { echo "patch does not apply"; exit 2; }
  trap 'git -C /repo checkout -- . ; git -C /repo clean -fdq -- . >/dev/null 2>&1; git -C /verif checkout -- evidence' EXIT
fi
cd /verif
for p in "$@"; do
  out=$(SIM_BUDGET_SEC=$budget ./run.sh $p quick 2>&1)
  rc=$?
  echo "== $p rc=$rc"
  echo "$out" | grep -E "^violation|^VIOLATION|HARNESS|^NOTE|^C[0-9]+ quick" | cut -c1-260 | head -8
done
