#!/usr/bin/env python3
import json,sys,base64
def val(v):
    k=v['k']
    if k=='n': return 'NULL'
    if k=='i': return str(v.get('i',0))
    if k=='b': return str(v.get('b',False))
    if k=='s':
        s=base64.b64decode(v.get('s','')) if v.get('s') else b''
        return repr(s[:20])+('..%d'%len(s) if len(s)>20 else '')
    return '?'
def cond(w):
    if not w: return ''
    return ' WHERE '+(' %s '%(w.get('op') or 'and')).join('%s%s%s'%(c['col'],c['op'],val(c['v'])) for c in w['cmps'])
def stmt(s):
    k=s['kind']
    if k=='insert': return 'INSERT %s %s rows=%s'%(s['table'],s.get('colnames') or '', [[val(v) for v in r] for r in s['rows']])
    if k=='create': return 'CREATE %s (%s)'%(s['table'], ','.join('%s:%d'%(c['name'],c['type']) for c in s['cols']))
    if k=='update': return 'UPDATE %s SET %s%s'%(s['table'], ','.join('%s=%s'%(x['col'],val(x['v'])) for x in s['set']), cond(s.get('where')))
    if k=='delete': return 'DELETE %s%s'%(s['table'],cond(s.get('where')))
    if k=='select': return 'SELECT * FROM %s'%s['table']
    if k=='rawsql': return 'RAW '+s['sql']
    return k+' '+s.get('db','')
def plan(p,ind=''):
    print(ind+'knobs',p.get('knobs'),'final',p.get('final'))
    for i,s in enumerate(p.get('stmts') or []):
        print(ind+'%3d %s%s'%(i,stmt(s),' [text]' if s.get('text') else ''))
    for d in p.get('directives') or []: print(ind+'  dir',d)
    for j,im in enumerate(p.get('images') or []):
        c=im.get('cont'); im2={k:v for k,v in im.items() if k!='cont'}
        print(ind+'  image',j,im2)
        if c: plan(c,ind+'      ')
for f in sys.argv[1:]:
    r=json.load(open(f))
    print('=====',f); print(r['signature']); print(r['detail']); plan(r['plan'])
