#!/bin/bash
# refresh_evidence.sh: runs every claimed quick check on /repo as it is (must be clean),
# validates the evidence files against the schema, prints one line per check.
cd /verif
if ! git -C /repo diff --quiet; then echo "/repo has uncommitted changes"; exit 2; fi
rc_all=0
for p in $(python3 -c "import json;print(' '.join(c['property_id'] for c in json.load(open('MANIFEST.json'))['checks']))"); do
  out=$(./run.sh $p quick 2>&1); rc=$?
  echo "$p rc=$rc $(echo "$out" | grep -c '^KNOWN-FINDING') known | $(echo "$out" | tail -1 | cut -c1-200)"
  [ $rc -ne 0 ] && rc_all=1
done
python3-vt - <<'PY' || rc_all=1
import json,glob,jsonschema,sys
sch=json.load(open('/root/.vp/EVIDENCE.schema.json'))
bad=0
for f in sorted(glob.glob('/verif/evidence/C*.json')):
    try: jsonschema.validate(json.load(open(f)),sch)
    except Exception as e: print("INVALID",f,str(e)[:200]); bad=1
print("evidence files valid" if not bad else "evidence INVALID")
sys.exit(bad)
PY
exit $rc_all
