#!/bin/bash
# importmutant.sh <worktree> <seeded-id> <prop>: stores a sub-agent's change under /verif/seeded/<id>/
wt=$1; id=$2; prop=$3; d=/verif/seeded/$id
mkdir -p $d
cp $wt/patch.diff $d/patch.diff || exit 1
cp $wt/MUTATION.md $d/MUTATION.md
for f in $wt/*_test.go.txt; do cp $f $d/; done
[ -e $d/meta.json ] || cat > $d/meta.json <<EOT
{
 "breaks": "$prop",
 "change": "",
 "needs_to_manifest": "",
 "rare": true,
 "result": {},
 "origin": "independent sub-agent (wave 15), given only the property text and a scratch worktree",
 "confirmed": "tools/verifymutant.sh: patch applies, builds, pinned suite passes, demonstration fails with / passes without",
 "checks_run": ""
}
EOT
ls $d
