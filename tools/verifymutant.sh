#!/bin/bash
# verifymutant.sh <seeded-id>: re-checks a seeded change by hand-free procedure in a fresh worktree:
# patch applies, builds, pinned suite passes with it, demonstration fails with it and passes without it.
id=$1; d=/verif/seeded/$id
export GOFLAGS=-mod=mod GOPROXY=off GOSUMDB=off GOTOOLCHAIN=local
wt=/tmp/wt/verify-$$
base=$(python3 -c "import json;print(json.load(open('$d/meta.json')).get('base_commit','') or 'HEAD')" 2>/dev/null); [ -z "$base" ] && base=HEAD
git -C /repo worktree add -q --detach $wt $base || exit 2
trap 'git -C /repo worktree remove --force '$wt' >/dev/null 2>&1' EXIT
cd $wt
git apply $d/patch.diff || { echo "$id: PATCH DOES NOT APPLY"; exit 1; }
go build ./... || { echo "$id: DOES NOT BUILD"; exit 1; }
suite=$(go test -count=1 ./... 2>&1 | grep -v "^ok" | head -5)
[ -n "$suite" ] && { echo "$id: PINNED SUITE FAILS WITH THE CHANGE: $suite"; exit 1; }
res="suite-ok"
for demo in $d/*_test.go.txt; do
  [ -e "$demo" ] || { echo "$id: $res (no demonstration stored)"; exit 0; }
  pkg=$(grep -m1 '^package ' $demo | awk '{print $2}')
  case "$pkg" in
    engine) dir=engine;; storage) dir=storage;; sql) dir=sql;;
    main) if grep -q 'encoding/csv\|doBatchInsert\|importCfg' $demo; then dir=cmd/csvimport; else dir=cmd/console; fi;;
    *) echo "$id: unknown package $pkg"; exit 1;;
  esac
  cp $demo $dir/zz_seeded_demo_test.go
  race=""; grep -q -- "-race" $d/MUTATION.md 2>/dev/null && race="-race"
  head -3 $demo | grep -q "go:build verif" && race="-tags verif"
  with=$(go test $race -count=1 ./$dir 2>&1 | tail -1)
  git apply -R $d/patch.diff
  without=$(go test $race -count=1 ./$dir 2>&1 | tail -1)
  git apply $d/patch.diff
  rm $dir/zz_seeded_demo_test.go
  case "$with" in FAIL*|*FAIL*|*panic*|*fatal*) w=fails;; *) w="DOES-NOT-FAIL($with)";; esac
  case "$without" in ok*) wo=passes;; *) wo="DOES-NOT-PASS($without)";; esac
  res="$res; demo $(basename $demo .txt): with change $w, without $wo"
done
echo "$id: $res"
