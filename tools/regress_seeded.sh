#!/bin/bash
# regress_seeded.sh [budget]: runs every stored breaking change against the check of the property it breaks.
budget=${1:-25}
cd /verif
for d in seeded/*/; do
  id=$(basename $d)
  case $id in NEUTRAL*|OUTSIDE*|SUPERSEDED*) continue;; esac
  prop=$(python3 -c "import json;print(json.load(open('$d/meta.json'))['breaks'])")
  out=$(tools/trymutant.sh /verif/$d/patch.diff $budget $prop 2>&1)
  if echo "$out" | grep -q "^VIOLATION\|^violation"; then echo "CAUGHT  $id ($prop)"; else echo "MISSED  $id ($prop): $(echo "$out" | tail -1 | cut -c1-120)"; fi
  rm -rf replays/$prop
done
