package core

import (
	"encoding/binary"
	"fmt"
	"sort"

	"github.com/mk6i/mkdb/storage"
)

// Crash-image capture. Images are synthesised from the shadow files (which
// are built from the write hooks) under the fault model of C02-C04: process
// death, whole write calls survive, optionally the log is cut at its last
// fsync, and a flush may have completed any subset of its page writes (pages
// are written in arbitrary order) but writes the header last.

// PreStmt arms the capture requests for statement idx and resets the
// per-statement flush counter; called before the think-time directives.
func (w *World) PreStmt(idx int, reqs []capReq) {
	w.stmtIdx = idx
	w.flushIdx = 0
	w.capReqs = reqs
}

func (w *World) wantFlushCapture(st *storeState) bool {
	if w.stmtKind == KCreateDB && w.inStmt {
		return false
	}
	for _, r := range w.capReqs {
		if r.sel.Site == SiteFlush && r.sel.N == w.flushIdx {
			return true
		}
	}
	return false
}

func splitmix(x *uint64) uint64 {
	*x += 0x9e3779b97f4a7c15
	z := *x
	z = (z ^ (z >> 30)) * 0xbf58476d1ce4e5b9
	z = (z ^ (z >> 27)) * 0x94d049bb133111eb
	return z ^ (z >> 31)
}

func (w *World) flushTrigger() string {
	if w.cur != nil {
		return "timer"
	}
	if w.inRecovery {
		return "recovery"
	}
	if w.inStmt {
		switch w.stmtKind {
		case KCreate:
			return "create"
		case KRestart:
			return "close"
		}
		return w.stmtKind
	}
	return "close"
}

// captureFlush is called at the header write of a flush whose base was saved.
func (w *World) captureFlush(st *storeState, header []byte) {
	W := st.flushWrites // sorted by offset at FlushLoopDone
	base := st.flushBase
	var frontier uint64
	if len(base) >= 20 {
		frontier = binary.LittleEndian.Uint64(base[12:20])
	}
	nNew := 0
	for _, pw := range W {
		if pw.off >= frontier {
			nNew++
		}
	}
	for _, r := range w.capReqs {
		if r.sel.Site != SiteFlush || r.sel.N != w.flushIdx {
			continue
		}
		if r.sel.Enumerate && len(W) <= 6 {
			for mask := 0; mask < 1<<uint(len(W)); mask++ {
				sel := *r.sel
				sel.Enumerate, sel.SubsetSeed, sel.All, sel.Subset = false, 0, false, nil
				for i := range W {
					if mask&(1<<uint(i)) != 0 {
						sel.Subset = append(sel.Subset, i)
					}
				}
				w.emitFlushImage(st, header, W, base, frontier, nNew, sel, r.idx, mask)
			}
			sel := *r.sel
			sel.Enumerate, sel.SubsetSeed, sel.All, sel.Subset = false, 0, true, nil
			w.emitFlushImage(st, header, W, base, frontier, nNew, sel, r.idx, 1<<uint(len(W)))
			w.count("flush_enumerated")
			continue
		}
		sel := *r.sel
		sel.Enumerate = false
		if !sel.All && sel.SubsetSeed == 0 && r.sel.Enumerate {
			sel.SubsetSeed = uint64(len(W))*0x9e3779b97f4a7c15 | 1
		}
		var subset []int
		if !sel.All {
			if sel.SubsetSeed != 0 {
				seed := sel.SubsetSeed
				mode := splitmix(&seed) % 4
				switch {
				case len(W) == 0:
				case mode == 0: // prefix of a random order
					perm := make([]int, len(W))
					for i := range perm {
						perm[i] = i
					}
					for i := len(perm) - 1; i > 0; i-- {
						j := int(splitmix(&seed) % uint64(i+1))
						perm[i], perm[j] = perm[j], perm[i]
					}
					k := int(splitmix(&seed) % uint64(len(W)+1))
					subset = append(subset, perm[:k]...)
				case mode == 1: // all pages, no header
					for i := range W {
						subset = append(subset, i)
					}
				case mode == 2: // all but one
					skip := int(splitmix(&seed) % uint64(len(W)))
					for i := range W {
						if i != skip {
							subset = append(subset, i)
						}
					}
				default: // each page with probability 1/2
					for i := range W {
						if splitmix(&seed)&1 == 1 {
							subset = append(subset, i)
						}
					}
				}
				sort.Ints(subset)
				sel.SubsetSeed = 0
			} else {
				for _, i := range sel.Subset {
					if i >= 0 && i < len(W) {
						subset = append(subset, i)
					}
				}
			}
			sel.Subset = subset
		}
		w.emitFlushImage(st, header, W, base, frontier, nNew, sel, r.idx, -1)
	}
}

// emitFlushImage builds one image: base + the selected page writes (+ header if complete).
func (w *World) emitFlushImage(st *storeState, header []byte, W []pageWrite, base []byte, frontier uint64, nNew int, sel ImageSel, idx, sub int) {
	all := sel.All
	img := append([]byte(nil), base...)
	sh := &fileShadow{data: img}
	hasExisting, missingNew := false, false
	in := map[int]bool{}
	if all {
		for i := range W {
			in[i] = true
		}
	}
	for _, i := range sel.Subset {
		in[i] = true
	}
	for i, pw := range W {
		if in[i] {
			sh.writeAt(int(pw.off), pw.b)
			if pw.off < frontier {
				hasExisting = true
			}
		} else if pw.off >= frontier {
			missingNew = true
		}
	}
	class := "other"
	switch {
	case all:
		sh.writeAt(0, header)
		class = "complete"
	case len(in) == 0:
		class = "none"
	case len(in) == len(W):
		class = "all-pages-no-header"
	case hasExisting && missingNew:
		class = "existing-without-all-new"
	case !hasExisting:
		class = "only-new"
	}
	files := w.SnapshotFiles()
	files[st.path] = sh.data
	hdrChanged := "no"
	if len(base) >= len(header) && string(base[:len(header)]) != string(header) {
		hdrChanged = "yes"
	}
	alloc := "no"
	if len(header) >= 20 && binary.LittleEndian.Uint64(header[12:20]) != frontier {
		alloc = "yes"
	}
	if sel.OnlyStrict {
		strict := class == "none" || class == "only-new" || class == "complete" || (class == "all-pages-no-header" && alloc == "no")
		if !strict {
			w.count("image_flush_dropped_not_strict")
			return
		}
	}
	w.Captured = append(w.Captured, &Image{
		Sel: sel, Idx: idx, Sub: sub, Files: files, StmtIdx: w.stmtIdx, InStmt: w.inStmt,
		Info: map[string]string{
			"site": "flush", "trigger": w.flushTrigger(), "subset": class,
			"nW": fmt.Sprint(len(W)), "nNew": fmt.Sprint(nNew), "hdr_changed": hdrChanged, "alloc": alloc,
		},
	})
	w.count("image_flush")
	w.count("image_flush_" + class)
}

// captureWal is called immediately before a log write / fsync.
func (w *World) captureWal(h *walHandle, kind int, b []byte) {
	if w.cur != nil {
		return
	}
	if kind == storage.VerifWalWriteBody && len(b) > 0 {
		w.stmtRecOps = append(w.stmtRecOps, b[0])
	}
	for _, r := range w.capReqs {
		if r.sel.Site != SiteWal || r.sel.N != w.walEvIdx {
			continue
		}
		files := w.SnapshotFiles()
		cut := "write"
		if r.sel.CutAtSync {
			files[h.path] = append([]byte(nil), h.shadow.data[:h.shadow.synced]...)
			cut = "sync"
		}
		pos := map[int]string{storage.VerifWalWriteLen: "len", storage.VerifWalWriteBody: "body", storage.VerifWalSync: "sync"}[kind]
		w.Captured = append(w.Captured, &Image{
			Sel: *r.sel, Idx: r.idx, Sub: -1, Files: files, StmtIdx: w.stmtIdx, InStmt: true,
			Info: map[string]string{"site": "wal", "pos": pos, "cut": cut, "ev": fmt.Sprint(w.walEvIdx)},
		})
		w.count("image_wal")
		w.count("image_wal_" + pos + "_" + cut)
	}
}

// CaptureBoundary takes an image between two statements.
func (w *World) CaptureBoundary(r capReq) {
	w.Captured = append(w.Captured, &Image{
		Sel: *r.sel, Idx: r.idx, Sub: -1, Files: w.SnapshotFiles(), StmtIdx: w.stmtIdx, InStmt: false,
		Info: map[string]string{"site": "boundary"},
	})
	w.count("image_boundary")
}
