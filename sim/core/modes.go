package core

import (
	"fmt"
	"os"
	"path/filepath"

	"github.com/mk6i/mkdb/storage"
)

// ---- C13: tick placed at every yield point of sampled statements ----

func mergeInto(dst, src *RunResult) {
	dst.addStats(src.Stats)
	dst.SimMs += src.SimMs
	dst.Stmts += src.Stmts
	dst.Images += src.Images
	dst.Fingerprints = append(dst.Fingerprints, src.Fingerprints...)
	if src.Harness != "" && dst.Harness == "" {
		dst.Harness = src.Harness
	}
	dst.Violations = append(dst.Violations, src.Violations...)
}

// RunC13Sweep runs the plan as generated, then, for sampled statements, one
// derived plan per yield point of the statement with a stall (virtual time
// passing, so every live flusher gets a tick) placed exactly there.
func RunC13Sweep(p *Plan, env *Env) *RunResult {
	res := RunPlan(p, env)
	if len(res.Violations) > 0 || res.Harness != "" {
		return res
	}
	if p.Knobs.SparseObserve {
		// a bulk plan (thousands of rows): no sweep, see profiles.go bulk()
		return res
	}
	counts := res.EvCounts
	kindOf := func(i int) string {
		if i < len(res.StmtClass) {
			return res.StmtClass[i]
		}
		return p.Stmts[i].Kind
	}
	r := NewRng(p.Seed ^ 0xc13)
	budget, perStmt, perKind := 90, 45, 2
	if p.Tier == "thorough" {
		budget, perStmt, perKind = 500, 120, 4
	}
	// statements to sweep: prefer one of each kind
	seen := map[string]int{}
	var order []int
	for i := range p.Stmts {
		if i < len(counts) && counts[i] > 0 {
			order = append(order, i)
		}
	}
	for i := len(order) - 1; i > 0; i-- {
		j := r.Intn(i + 1)
		order[i], order[j] = order[j], order[i]
	}
	// per kind, the statement with the most yield points first: the rarely
	// taken branches (root splits, catalog growth) are the long ones
	best := map[string]int{}
	for _, i := range order {
		k := kindOf(i)
		if b, ok := best[k]; !ok || counts[i] > counts[b] {
			best[k] = i
		}
	}
	var front []int
	for _, i := range order {
		if best[kindOf(i)] == i {
			front = append(front, i)
		}
	}
	for _, i := range order {
		if best[kindOf(i)] != i {
			front = append(front, i)
		}
	}
	order = front
	for _, i := range order {
		if budget <= 0 {
			break
		}
		k := kindOf(i)
		if seen[k] >= perKind {
			continue
		}
		seen[k]++
		n := counts[i]
		step := 1
		if n > perStmt {
			step = n / perStmt
		}
		for at := 0; at < n && budget > 0; at += step {
			budget--
			q := p.Clone()
			q.Stmts = q.Stmts[:i+1]
			q.Images = nil
			q.Final = ""
			var ds []Directive
			for _, d := range q.Directives {
				if d.Stmt < i && d.At < 0 {
					ds = append(ds, d)
				}
			}
			ms := tickPeriodMs * (1 + r.Intn(4))
			if r.Chance(0.3) {
				ms = tickPeriodMs * r.Range(3, 10)
			}
			ds = append(ds, Directive{Stmt: i, At: at, Kind: "advance", Ms: ms})
			q.Directives = ds
			sub := RunPlan(q, env)
			sub.Fingerprints = []string{fmt.Sprintf("c13:%s:at%d:parked%v", k, at, sub.Stats["flusher_parked_on_lock"] > 0)}
			res.Stats["c13_derived_runs"]++
			if sub.Stats["stall_in_stmt"] > 0 {
				res.Stats["c13_tick_at_yield_"+k]++
			}
			for _, v := range sub.Violations {
				v.Detail = fmt.Sprintf("[derived plan: tick at yield %d of statement %d] %s", at, i, v.Detail)
			}
			if len(sub.Violations) > 0 {
				sub.DerivedPlan = q
			}
			mergeInto(res, sub)
			if len(sub.Violations) > 0 {
				res.DerivedPlan = q
				return res
			}
			if res.Harness != "" {
				return res
			}
		}
	}
	return res
}

// ---- C16: same plan under the default and under a small page cache ----

func RunC16Diff(p *Plan, env *Env) *RunResult {
	small := p.Clone()
	if small.Knobs.CacheCap == 0 || small.Knobs.CacheCap >= 1000 {
		small.Knobs.CacheCap = 12 + int(p.Seed%53)
	}
	small.Knobs.ForceFlush = true
	big := p.Clone()
	big.Knobs.CacheCap = 0
	big.Knobs.ForceFlush = false
	if p.Knobs.SparseObserve {
		// a giant plan: the table outgrows the DEFAULT cache, so the default
		// capacity is the small side and a cache that never evicts the big one
		small.Knobs.CacheCap = 0
		small.Knobs.ForceFlush = false
		big.Knobs.CacheCap = 1 << 20
	}
	a := RunPlan(big, env)
	b := RunPlan(small, env)
	res := &RunResult{Stats: map[string]int64{}}
	mergeInto(res, a)
	mergeInto(res, b)
	res.EventHash = a.EventHash + b.EventHash
	res.Stats["c16_pairs"]++
	if len(res.Violations) > 0 || res.Harness != "" {
		return res
	}
	// cache-pressure fault: where a page the file does not hold sat clean in
	// the cache, run again with every other clean page marked dirty at that
	// event; O-evict decides whether the page is really dropped
	for _, ev := range b.PressureHints {
		pr := small.Clone()
		pr.Knobs.PressureAt = ev
		c := RunPlan(pr, env)
		res.Stats["c16_pressure_runs"]++
		res.Stats["pressure_applied"] += c.Stats["pressure_applied"]
		res.Stats["pressure_pages_marked_dirty"] += c.Stats["pressure_pages_marked_dirty"]
		res.SimMs += c.SimMs
		if c.Harness != "" {
			res.Harness = c.Harness
			return res
		}
		for _, v := range c.Violations {
			if v.Features == nil {
				v.Features = map[string]string{}
			}
			v.Features["fault"] = "cache-pressure"
			res.Violations = append(res.Violations, v)
		}
		if len(res.Violations) > 0 {
			return res
		}
	}
	if b.Abandoned != "" || a.Abandoned != "" {
		res.Abandoned = a.Abandoned + b.Abandoned
		res.Stats["c16_precondition_exit"]++
		return res
	}
	if b.Stats["lru_refuse"] > 0 {
		res.Stats["c16_refusals"] += b.Stats["lru_refuse"]
	}
	n := len(a.Trace)
	if len(b.Trace) < n {
		n = len(b.Trace)
	}
	for i := 0; i < n; i++ {
		if a.Trace[i] != b.Trace[i] {
			res.Violations = append(res.Violations, &Violation{Prop: "C16", Oracle: "O-same", StmtIdx: i,
				Features: map[string]string{"how": "outcome-differs", "stmt": p.Stmts[i].Kind, "headroom": headroom(small.Knobs)},
				Detail:   fmt.Sprintf("statement %d (%s) under cache capacity %d: %s; under the default cache: %s", i, describe(&p.Stmts[i]), small.Knobs.CacheCap, b.Trace[i], a.Trace[i])})
			return res
		}
	}
	if len(a.Trace) != len(b.Trace) {
		res.Violations = append(res.Violations, &Violation{Prop: "C16", Oracle: "O-same", StmtIdx: n,
			Features: map[string]string{"how": "length-differs"}, Detail: fmt.Sprintf("runs executed %d vs %d statements", len(a.Trace), len(b.Trace))})
	}
	if b.Stats["cold_read"] > 0 && b.Stats["lru_evict"] > 0 {
		res.Fingerprints = append(res.Fingerprints, fmt.Sprintf("c16:cap%d:ev%d:t%d", small.Knobs.CacheCap, bucket(b.Stats["lru_evict"]), len(p.Stmts)/10))
	}
	return res
}

func bucket(n int64) int {
	b := 0
	for n > 0 {
		n >>= 1
		b++
	}
	return b
}

// ---- C15: stand-alone cache driven by seeded operation sequences ----

func RunLRUDrive(seed uint64, thorough bool, env *Env) *RunResult {
	res := &RunResult{Stats: map[string]int64{}}
	dir := filepath.Join(env.Scratch, "lru")
	os.MkdirAll(dir, 0755)
	defer os.RemoveAll(dir)
	w, err := NewWorld(dir, Knobs{}, "C15", nil)
	if err != nil {
		res.Harness = err.Error()
		return res
	}
	defer w.Unmount()
	w.mon = Monitors{LRU: true}
	r := NewRng(seed ^ 0xc15)
	seqs := 40
	if thorough {
		seqs = 200
	}
	for s := 0; s < seqs && w.Viol == nil; s++ {
		capacity := r.Range(1, 5)
		nkeys := r.Range(capacity, capacity+3)
		if r.Chance(0.15) {
			capacity = r.Range(6, 40)
			nkeys = capacity + r.Range(1, 12)
		}
		big := r.Chance(0.006)
		if big {
			// capacities the engine-driven runs never fill: around the powers of
			// two up to the default of 10000
			capacity = []int{255, 256, 257, 1023, 1024, 1025, 2047, 2048, 2049, 4096, 10000}[r.Intn(11)]
			nkeys = capacity + r.Range(1, 40)
		}
		l := storage.NewLRU(capacity)
		w.AttachLRUModel(l)
		m := w.lruShadow[l]
		nodes := map[uint64]*storage.VerifNode{} // every node ever created, by key (latest)
		steps := r.Range(20, 400)
		shape := uint64(capacity)
		if big {
			// fill the cache first (mostly clean pages), then work on it
			for i := 0; i < capacity && w.Viol == nil; i++ {
				k := uint64(i) * 4096
				n := storage.VerifNewNode(k, r.Chance(0.1))
				if !l.VerifSet(k, n) {
					w.lruFail(fmt.Sprintf("set(%d) refused while the cache holds %d of %d entries", k, i, capacity), "set-return")
				}
				nodes[k] = n
			}
			steps = r.Range(200, 1500)
			res.Stats["lrudrive_big_capacity_seqs"]++
		}
		phased := !big && r.Chance(0.3)
		if phased {
			// engine-shaped bursts instead of a uniform mix: long runs of dirty
			// pages at the cold end, a flush that re-stores each of them, then
			// insertions - at capacities around every power of two up to 512
			capacity = r.Range(4, 80)
			if r.Chance(0.3) {
				capacity = []int{15, 16, 17, 31, 32, 33, 34, 63, 64, 65, 66, 127, 128, 129, 130, 255, 257, 300, 513}[r.Intn(19)]
			}
			if r.Chance(0.004) {
				// beyond the next powers of two as well (each such sequence costs
				// about a second: the model is a plain list)
				capacity = []int{1023, 1025, 1030, 1500, 2049, 2100, 4097}[r.Intn(7)]
				res.Stats["lrudrive_phased_big_seqs"]++
			}
			l = storage.NewLRU(capacity)
			w.AttachLRUModel(l)
			m = w.lruShadow[l]
			shape = uint64(capacity)
			steps = 0
			res.Stats["lrudrive_phased_seqs"]++
			fresh := uint64(0) // keys never used before
			newKey := func() uint64 { fresh++; return (1<<20 + fresh) * 4096 }
			insert := func(k uint64, dirty bool) {
				n := storage.VerifNewNode(k, dirty)
				_, anyClean := m.victim()
				want := m.idx(k) >= 0 || len(m.keys) < m.cap || anyClean
				got := l.VerifSet(k, n)
				if got != want {
					w.lruFail(fmt.Sprintf("set(%d) returned %v, model expects %v (%d/%d entries, clean entry available: %v)", k, got, want, len(m.keys), m.cap, anyClean), "set-return")
				}
				if !got {
					res.Stats["lrudrive_refused"]++
					shape = shape*31 + 7
				}
				res.Stats["lrudrive_set"]++
				steps++
			}
			lookup := func(k uint64) {
				wantOK := m.idx(k) >= 0
				wantN := m.vals[k]
				n, ok := l.VerifGet(k)
				if ok != wantOK || (ok && n != wantN) {
					w.lruFail(fmt.Sprintf("get(%d) returned (%v) but the model says resident=%v", k, ok, wantOK), "get-return")
				}
				res.Stats["lrudrive_get"]++
				steps++
			}
			rounds := r.Range(2, 7)
			for round := 0; round < rounds && w.Viol == nil; round++ {
				// fill up with clean pages
				for len(m.keys) < m.cap && w.Viol == nil && r.Chance(0.97) {
					insert(newKey(), false)
				}
				// a burst of dirty pages: resident ones from the cold end, the warm end
				// or anywhere, or newly inserted ones
				burst := r.Range(1, capacity)
				from := r.Intn(4)
				for j := 0; j < burst && w.Viol == nil; j++ {
					keys := m.keys
					if len(keys) == 0 {
						break
					}
					switch from {
					case 0: // coldest clean entries become dirty in place
						for i := len(keys) - 1; i >= 0; i-- {
							if n := m.vals[keys[i]]; !n.VerifIsDirty() {
								n.VerifSetDirty(true)
								res.Stats["lrudrive_dirty"]++
								break
							}
						}
					case 1: // new dirty pages
						insert(newKey(), true)
					case 2: // looked up, then changed
						k := keys[r.Intn(len(keys))]
						lookup(k)
						if n := m.vals[k]; n != nil {
							n.VerifSetDirty(true)
							res.Stats["lrudrive_dirty"]++
						}
					default:
						m.vals[keys[r.Intn(len(keys))]].VerifSetDirty(true)
						res.Stats["lrudrive_dirty"]++
					}
				}
				// the burst ages: other pages are touched or inserted
				age := r.Intn(capacity + 1)
				for j := 0; j < age && w.Viol == nil; j++ {
					if r.Chance(0.5) && len(m.keys) > 0 {
						lookup(m.keys[r.Intn(len(m.keys))])
					} else {
						insert(newKey(), r.Chance(0.1))
					}
				}
				if nIdx, _ := l.VerifLen(); nIdx > capacity {
					w.lruFail(fmt.Sprintf("cache holds %d entries, capacity %d", nIdx, capacity), "over-capacity")
				}
				// flush as fileStore.flushPages does it: every dirty page is stored
				// again under its key, then marked clean (some flushes are partial:
				// a crash model is not needed here, a statement may dirty pages again)
				if r.Chance(0.85) {
					var dirty []uint64
					for _, kk := range m.keys {
						if m.vals[kk].VerifIsDirty() {
							dirty = append(dirty, kk)
						}
					}
					for _, i := range r.Perm(len(dirty)) {
						kk := dirty[i]
						n := m.vals[kk]
						if r.Chance(0.8) {
							if !l.VerifSet(kk, n) {
								w.lruFail(fmt.Sprintf("set(%d) of a resident key refused", kk), "set-return")
							}
							res.Stats["lrudrive_reset"]++
						}
						n.VerifSetDirty(false)
					}
					res.Stats["lrudrive_clean"]++
				}
				// misses after the flush
				after := r.Range(1, capacity+3)
				for j := 0; j < after && w.Viol == nil; j++ {
					switch r.Intn(4) {
					case 0:
						if len(m.keys) > 0 {
							lookup(m.keys[r.Intn(len(m.keys))])
						}
					default:
						insert(newKey(), r.Chance(0.15))
					}
				}
				if nIdx, _ := l.VerifLen(); nIdx > capacity {
					w.lruFail(fmt.Sprintf("cache holds %d entries, capacity %d", nIdx, capacity), "over-capacity")
				}
			}
		}
		for i := 0; !phased && i < steps && w.Viol == nil; i++ {
			k := uint64(r.Intn(nkeys)) * 4096
			switch r.Intn(10) {
			case 0, 1, 2: // lookup
				wantOK := m.idx(k) >= 0
				wantN := m.vals[k]
				n, ok := l.VerifGet(k)
				if ok != wantOK || (ok && n != wantN) {
					w.lruFail(fmt.Sprintf("get(%d) returned (%v) but the model says resident=%v", k, ok, wantOK), "get-return")
				}
				res.Stats["lrudrive_get"]++
			case 3, 4, 5, 6: // insertion of a new page object (clean or dirty)
				n := storage.VerifNewNode(k, r.Chance(0.4))
				_, anyClean := m.victim()
				want := m.idx(k) >= 0 || len(m.keys) < m.cap || anyClean
				got := l.VerifSet(k, n)
				if got != want {
					w.lruFail(fmt.Sprintf("set(%d) returned %v, model expects %v (%d/%d entries, clean entry available: %v)", k, got, want, len(m.keys), m.cap, anyClean), "set-return")
				}
				if got {
					nodes[k] = n
				} else {
					res.Stats["lrudrive_refused"]++
					shape = shape*31 + 7
				}
				res.Stats["lrudrive_set"]++
			case 7: // re-store the same object (what fileStore.update does after a flush)
				if n := m.vals[k]; n != nil {
					if !l.VerifSet(k, n) {
						w.lruFail(fmt.Sprintf("set(%d) of a resident key refused", k), "set-return")
					}
					res.Stats["lrudrive_reset"]++
				}
			case 8: // a resident page becomes dirty
				if n := m.vals[k]; n != nil {
					n.VerifSetDirty(true)
					res.Stats["lrudrive_dirty"]++
				}
			case 9: // flush: some or all dirty pages become clean
				for _, kk := range m.keys {
					if r.Chance(0.7) {
						m.vals[kk].VerifSetDirty(false)
					}
				}
				res.Stats["lrudrive_clean"]++
			}
			if nIdx, _ := l.VerifLen(); nIdx > capacity {
				w.lruFail(fmt.Sprintf("cache holds %d entries, capacity %d", nIdx, capacity), "over-capacity")
			}
		}
		res.Stats["lrudrive_seqs"]++
		res.Stats["lrudrive_steps"] += int64(steps)
		res.Fingerprints = append(res.Fingerprints, fmt.Sprintf("lru:cap%d:keys%d:steps%d:%x", capacity, nkeys, steps/50, shape%4096))
		delete(w.lruShadow, l)
	}
	if w.Viol != nil {
		w.Viol.Detail = fmt.Sprintf("[stand-alone cache, seed %d] %s", seed, w.Viol.Detail)
		res.Violations = append(res.Violations, w.Viol)
	}
	res.addStats(w.Stats)
	res.EventHash = fmt.Sprintf("%016x", uint64(w.Hash))
	return res
}

// headroom classifies how close to full of dirty pages the small cache was allowed to get.
func headroom(k Knobs) string {
	m := k.FlushMargin
	if m <= 0 {
		m = 10
	}
	if m < 6 {
		return "lt6"
	}
	return "ge6"
}
