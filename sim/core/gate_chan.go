//go:build !verifrace

package core

import (
	"sync/atomic"
	"time"
)

// gate: hand-over point between the session goroutine and a flusher goroutine
// (the baton). In the ordinary build it is an unbuffered channel.
type gate struct{ c chan struct{} }

func newGate() *gate       { return &gate{make(chan struct{})} }
func (g *gate) signal()    { g.c <- struct{}{} }
func (g *gate) wait()      { <-g.c }
func (g *gate) closeGate() {}

// RaceMode: built with the race detector as an extra monitor (tag verifrace).
const RaceMode = false

func bumpProgress()       { atomic.AddInt64(&Progress, 1) }
func ReadProgress() int64 { return atomic.LoadInt64(&Progress) }

// feedTick delivers a tick to the flusher's ticker channel.
func (st *storeState) feedTick()    { st.tick <- time.Time{} }
func (st *storeState) startFeeder() {}
func (st *storeState) stopFeeder()  {}
