// Package core is the deterministic simulator for mk6i/mkdb: plan types,
// reference model, generator, world/kernel (hook handlers), oracles.
package core

import (
	"encoding/json"
	"fmt"
	"sort"
	"strings"
)

// Column types (same numbering as storage.Type*).
const (
	TInt = iota
	TVarchar
	TBool
	TBigInt
)

// Val is one SQL value. K: "n" NULL, "i" integer, "s" string, "b" boolean.
type Val struct {
	K string `json:"k"`
	I int64  `json:"i,omitempty"`
	S []byte `json:"s,omitempty"`
	B bool   `json:"b,omitempty"`
}

func Null() Val            { return Val{K: "n"} }
func Int(i int64) Val      { return Val{K: "i", I: i} }
func Str(s string) Val     { return Val{K: "s", S: []byte(s)} }
func Bool(b bool) Val      { return Val{K: "b", B: b} }
func (v Val) IsNull() bool { return v.K == "n" }

// Go converts to the value the engine uses.
func (v Val) Go() interface{} {
	switch v.K {
	case "i":
		return v.I
	case "s":
		return string(v.S)
	case "b":
		return v.B
	}
	return nil
}

func FromGo(x interface{}) Val {
	switch t := x.(type) {
	case nil:
		return Null()
	case int64:
		return Int(t)
	case string:
		return Str(t)
	case bool:
		return Bool(t)
	}
	return Val{K: "?", S: []byte(fmt.Sprintf("%T:%v", x, x))}
}

func (v Val) Equal(o Val) bool {
	if v.K != o.K {
		return false
	}
	switch v.K {
	case "i":
		return v.I == o.I
	case "s":
		return string(v.S) == string(o.S)
	case "b":
		return v.B == o.B
	}
	return true
}

func (v Val) String() string {
	switch v.K {
	case "n":
		return "NULL"
	case "i":
		return fmt.Sprint(v.I)
	case "s":
		if len(v.S) > 24 {
			return fmt.Sprintf("%q..(%d)", v.S[:24], len(v.S))
		}
		return fmt.Sprintf("%q", v.S)
	case "b":
		return fmt.Sprint(v.B)
	}
	return "?" + string(v.S)
}

type Col struct {
	Name string `json:"name"`
	Type int    `json:"type"`
	Len  int64  `json:"len,omitempty"`
}

// Cmp is one comparison "col op literal".
type Cmp struct {
	Col string `json:"col"`
	Op  string `json:"op"` // = != < <= > >=
	V   Val    `json:"v"`
}

// Cond is a WHERE condition: comparisons joined by one connective.
// Op "and": c1 AND c2 AND ...; "or": c1 OR c2 OR ...; "" : single comparison.
type Cond struct {
	Op   string `json:"op,omitempty"`
	Cmps []Cmp  `json:"cmps"`
}

type SetItem struct {
	Col string `json:"col"`
	V   Val    `json:"v"`
}

// Stmt kinds.
const (
	KCreateDB = "createdb"
	KUse      = "use"
	KShowDB   = "showdb"
	KCreate   = "create"
	KInsert   = "insert"
	KUpdate   = "update"
	KDelete   = "delete"
	KSelect   = "select"  // SELECT * FROM table (checked against the model)
	KRestart  = "restart" // clean shutdown of the current service, process exit, InitStorage, USE current db
	KRawSQL   = "rawsql"  // text handed to ExecQuery; outcome only checked for panics / cross-config equality
)

type Stmt struct {
	Kind     string    `json:"kind"`
	DB       string    `json:"db,omitempty"`
	Table    string    `json:"table,omitempty"`
	Cols     []Col     `json:"cols,omitempty"`
	ColNames []string  `json:"colnames,omitempty"`
	Rows     [][]Val   `json:"rows,omitempty"`
	Set      []SetItem `json:"set,omitempty"`
	Where    *Cond     `json:"where,omitempty"`
	ViaText  bool      `json:"text,omitempty"`
	// LitStyle: how integer literals are written in SQL text: 0 plain, 1 one
	// leading zero ("010" is ten), 2 several leading zeros
	LitStyle int    `json:"lit_style,omitempty"`
	SQL      string `json:"sql,omitempty"`
	// OpenFail (USE only): the open of the database's "log" or "data" file
	// fails once with EMFILE during this statement (a failing system call).
	OpenFail string `json:"open_fail,omitempty"`
}

// Directive: something the simulator does at a yield point.
// Stmt = index into Plan.Stmts; At = -1 before the statement starts (think
// time), otherwise the 0-based index of the hook event inside the statement
// at which to act (ignored if the statement has fewer events).
type Directive struct {
	Stmt int    `json:"stmt"`
	At   int    `json:"at"`
	Kind string `json:"kind"` // "advance": virtual time passes (ticks become due)
	Ms   int    `json:"ms,omitempty"`
}

// Image selectors: where a crash image is taken and what the continuation is.
const (
	SiteBoundary = "boundary" // after statement Stmt returned (Stmt = -1: before the first)
	SiteWal      = "wal"      // before the N-th log write/sync event of statement Stmt
	SiteFlush    = "flush"    // inside the N-th flush that happens during/before statement Stmt
)

type ImageSel struct {
	Site string `json:"site"`
	Stmt int    `json:"stmt"`
	N    int    `json:"n,omitempty"`
	// SiteWal: cut the log at the last fsync instead of at the last write
	CutAtSync bool `json:"cut_at_sync,omitempty"`
	// SiteFlush: which page writes of the flush (indices into the write set
	// sorted by offset) reached the file; All = every page and the header
	// (completed flush). SubsetSeed != 0: subset chosen by that seed once the
	// write set is known (used by generated plans; replay files carry explicit Subset).
	Subset     []int  `json:"subset,omitempty"`
	All        bool   `json:"all,omitempty"`
	SubsetSeed uint64 `json:"subset_seed,omitempty"`
	// Enumerate: one image per subset of the flush's page writes (only when the
	// write set has at most 6 pages; larger flushes fall back to SubsetSeed)
	Enumerate bool `json:"enumerate,omitempty"`
	// OnlyStrict: the image is dropped unless its class is one the engine is
	// expected to survive (nothing / only new pages / complete / all pages of a
	// flush that allocated nothing, header missing): used outside C04, where the
	// open C04 findings must not be re-reported under another property
	OnlyStrict bool `json:"only_strict,omitempty"`
	// Once: the image is recovered once and the continuation starts on that
	// state. Otherwise start-up recovery runs a second time first (it must
	// change nothing) - which would also repair what the first run left
	// half-done in the log, so half of the images go without it.
	Once bool `json:"once,omitempty"`
	// GhostDir: before recovery an empty directory of this name is made under
	// data/ - what a process leaves that died right after the mkdir of an
	// unacknowledged CREATE DATABASE
	GhostDir string `json:"ghost_dir,omitempty"`
	// Cont: what happens after recovery (statements, directives, nested images)
	Cont *Plan `json:"cont,omitempty"`
}

type Knobs struct {
	CacheCap    int  `json:"cache_cap"`              // 0 = default (10000)
	LRUReverse  bool `json:"lru_reverse,omitempty"`  // order in which a flush leaves its pages in the recency list
	ForceFlush  bool `json:"force_flush,omitempty"`  // enforce C16's precondition: tick at a boundary when dirty pages near capacity
	FlushMargin int  `json:"flush_margin,omitempty"` // ... i.e. when dirty >= capacity - margin (0 = 10)
	CacheOnly   bool `json:"cache_only,omitempty"`
	// LazyWake: a flusher that waited for the lock is not run the moment the
	// statement lets go of it; like a goroutine that was made runnable but got no
	// CPU yet, it stays behind until the session next needs the store lock, closes
	// the store, or virtual time passes. Crash images taken in between see an
	// acknowledged statement and a flush that has not started.
	LazyWake bool `json:"lazy_wake,omitempty"`
	// SlowWriteAt: the n-th page write of the main timeline takes 60 ms of real time (stalled disk)
	SlowWriteAt int   `json:"slow_write_at,omitempty"`
	PressureAt  int64 `json:"pressure_at,omitempty"` // main timeline: at this cache event every other clean resident page is marked dirty (cache pressure fault)
	// BiasKey / BiasLSN: right after CREATE DATABASE the counters in the file
	// header are raised to these values (as if a long history lay behind), so
	// that row ids and LSNs cross 2^8, 2^16, 2^24, 2^32 boundaries within a short run
	BiasKey       uint32 `json:"bias_key,omitempty"`
	BiasOffset    uint64 `json:"bias_offset,omitempty"`    // allocation frontier raised after CREATE DATABASE (sparse file): page offsets cross 2^24 in short runs
	BiasLSN       uint64 `json:"bias_lsn,omitempty"`       // C15 with ticks withheld: only the cache monitor and O-live are evaluated
	CheckEvery    int    `json:"check_every,omitempty"`    // full contents check every k statements (0/1 = every statement)
	SparseObserve bool   `json:"sparse_observe,omitempty"` // successful INSERTs are followed by an observer query only every CheckEvery statements (very large tables)
	TreeEvery     int    `json:"tree_every,omitempty"`     // tree walk every k statements (0 = never)
	// Quiet: no observer query after a successful statement - every SELECT the
	// oracle issues takes the store lock and runs the statement prologue, and a
	// state that any next statement repairs (a flag cleared in lockShared, a
	// page re-marked dirty by a fetch) is gone before anything that depends on
	// it happens. Tables are compared at USE, restart, refusals, every
	// CheckEvery-th statement and at the end only.
	Quiet         bool `json:"quiet,omitempty"`
	NoAutoRecheck bool `json:"-"`
}

type Plan struct {
	Prop       string      `json:"prop"`
	Tier       string      `json:"tier,omitempty"`
	Seed       uint64      `json:"seed"`
	Knobs      Knobs       `json:"knobs"`
	Stmts      []Stmt      `json:"stmts"`
	Directives []Directive `json:"directives,omitempty"`
	Images     []ImageSel  `json:"images,omitempty"`
	// Final: after the last statement, "" nothing, "close" clean close
	Final string `json:"final,omitempty"`
}

func (p *Plan) JSON() []byte {
	b, _ := json.MarshalIndent(p, "", " ")
	return b
}

func (p *Plan) Clone() *Plan {
	var q Plan
	b, _ := json.Marshal(p)
	_ = json.Unmarshal(b, &q)
	return &q
}

// Violation is what an oracle reports.
type Violation struct {
	Prop     string            `json:"prop"`
	Oracle   string            `json:"oracle"`
	Features map[string]string `json:"features"`
	Detail   string            `json:"detail"`
	ImgPath  string            `json:"img_path,omitempty"` // "" main timeline, "2" image 2, "2/0" nested
	// Chain: site descriptions of the crash images this world descends from
	// (outermost first, the violation's own image excluded)
	Chain []map[string]string `json:"chain,omitempty"`
	// SelChain: the resolved (explicit) selectors of the images on ImgPath
	SelChain []ImageSel `json:"sel_chain,omitempty"`
	StmtIdx  int        `json:"stmt_idx"`
}

// Signature is the canonical string of property+oracle+features.
func (v *Violation) Signature() string {
	keys := make([]string, 0, len(v.Features))
	for k := range v.Features {
		keys = append(keys, k)
	}
	sort.Strings(keys)
	var sb strings.Builder
	sb.WriteString(v.Prop + "|" + v.Oracle)
	for _, k := range keys {
		sb.WriteString("|" + k + "=" + v.Features[k])
	}
	return sb.String()
}

func (v *Violation) String() string {
	return fmt.Sprintf("%s @img[%s] stmt %d: %s", v.Signature(), v.ImgPath, v.StmtIdx, v.Detail)
}
