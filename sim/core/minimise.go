package core

import (
	"strconv"
	"strings"
)

// Minimise shrinks a failing plan while test keeps reporting the same
// violation signature: image chain first, then ddmin over statements and
// directives at every level of the chain, then argument simplification.
func Minimise(p *Plan, v *Violation, test func(*Plan) bool, budget int) *Plan {
	best := p.Clone()
	try := func(c *Plan) bool {
		if budget <= 0 {
			return false
		}
		budget--
		if test(c) {
			best = c
			return true
		}
		return false
	}
	// 1. keep only the chain of images that leads to the violation
	if c := keepChain(best, v.ImgPath, v.SelChain); c != nil {
		try(c)
	}
	// levels of the chain: main plan, then Cont of image 0, ...
	depth := 0
	for q := best; q != nil && len(q.Images) == 1 && q.Images[0].Cont != nil; q = q.Images[0].Cont {
		depth++
	}
	for lvl := depth; lvl >= 0; lvl-- {
		// 2. statements
		n := len(levelOf(best, lvl).Stmts)
		for chunk := (n + 1) / 2; chunk >= 1 && budget > 0; {
			removed := false
			for start := len(levelOf(best, lvl).Stmts) - chunk; start >= 0 && budget > 0; start -= chunk {
				c := best.Clone()
				if !removeStmts(levelOf(c, lvl), start, chunk) {
					continue
				}
				if try(c) {
					removed = true
				}
			}
			if !removed || chunk > len(levelOf(best, lvl).Stmts) {
				chunk /= 2
			}
		}
		// 3. directives
		for i := len(levelOf(best, lvl).Directives) - 1; i >= 0 && budget > 0; i-- {
			c := best.Clone()
			l := levelOf(c, lvl)
			if i >= len(l.Directives) {
				continue
			}
			l.Directives = append(l.Directives[:i], l.Directives[i+1:]...)
			try(c)
		}
		if len(levelOf(best, lvl).Directives) > 0 && budget > 0 {
			c := best.Clone()
			levelOf(c, lvl).Directives = nil
			try(c)
		}
		// 4. rows of multi-row inserts
		for si := range levelOf(best, lvl).Stmts {
			for budget > 0 {
				l := levelOf(best, lvl)
				if si >= len(l.Stmts) || l.Stmts[si].Kind != KInsert || len(l.Stmts[si].Rows) <= 1 {
					break
				}
				c := best.Clone()
				s := &levelOf(c, lvl).Stmts[si]
				s.Rows = s.Rows[:len(s.Rows)-1]
				if !try(c) {
					c2 := best.Clone()
					s2 := &levelOf(c2, lvl).Stmts[si]
					s2.Rows = s2.Rows[1:]
					if !try(c2) {
						break
					}
				}
			}
		}
		if levelOf(best, lvl).Final != "" && budget > 0 {
			c := best.Clone()
			levelOf(c, lvl).Final = ""
			try(c)
		}
	}
	// 5. knobs
	if best.Knobs.CacheCap != 0 && budget > 0 {
		c := best.Clone()
		setCap(c, 0)
		try(c)
	}
	return best
}

func setCap(p *Plan, n int) {
	p.Knobs.CacheCap = n
	p.Knobs.ForceFlush = false
	for i := range p.Images {
		if p.Images[i].Cont != nil {
			setCap(p.Images[i].Cont, n)
		}
	}
}

func levelOf(p *Plan, lvl int) *Plan {
	q := p
	for i := 0; i < lvl; i++ {
		if len(q.Images) != 1 || q.Images[0].Cont == nil {
			return q
		}
		q = q.Images[0].Cont
	}
	return q
}

func keepChain(p *Plan, path string, sels []ImageSel) *Plan {
	c := p.Clone()
	q := c
	if path == "" {
		if len(q.Images) == 0 {
			return nil
		}
		q.Images = nil
		return c
	}
	for lvl, part := range strings.Split(path, "/") {
		if i := strings.Index(part, "."); i >= 0 {
			part = part[:i]
		}
		idx, err := strconv.Atoi(part)
		if err != nil || idx < 0 || idx >= len(q.Images) {
			return nil
		}
		im := q.Images[idx]
		if lvl < len(sels) {
			// make the selector explicit (resolved subset instead of seed / enumeration)
			cont := im.Cont
			im = sels[lvl]
			im.Cont = cont
		}
		q.Images = []ImageSel{im}
		if q.Images[0].Cont == nil {
			q.Images[0].Cont = &Plan{}
		}
		q = q.Images[0].Cont
	}
	q.Images = nil
	return c
}

// removeStmts deletes statements [start, start+n) of the plan level and
// remaps directives and images; returns false if the removal is not possible
// (an image is anchored inside the removed range).
func removeStmts(p *Plan, start, n int) bool {
	if start < 0 || n <= 0 || start+n > len(p.Stmts) {
		return false
	}
	remap := func(i int) (int, bool) {
		switch {
		case i < start:
			return i, true
		case i >= start+n:
			return i - n, true
		}
		return 0, false
	}
	var imgs []ImageSel
	for _, im := range p.Images {
		if im.Stmt < 0 {
			imgs = append(imgs, im)
			continue
		}
		ni, ok := remap(im.Stmt)
		if !ok {
			if im.Site != SiteBoundary {
				return false
			}
			// boundary after a removed statement moves to the last kept one before it
			ni = start - 1
			if ni < 0 {
				return false
			}
		}
		im.Stmt = ni
		imgs = append(imgs, im)
	}
	var dirs []Directive
	for _, d := range p.Directives {
		ni, ok := remap(d.Stmt)
		if !ok {
			continue
		}
		d.Stmt = ni
		dirs = append(dirs, d)
	}
	p.Stmts = append(append([]Stmt(nil), p.Stmts[:start]...), p.Stmts[start+n:]...)
	p.Images = imgs
	p.Directives = dirs
	return true
}
