package core

import (
	"crypto/sha256"
	"encoding/hex"
	"fmt"
	"math"
	"os"
	"path/filepath"
	"runtime/debug"
	"sort"
	"strings"
	"unicode/utf8"

	"github.com/mk6i/mkdb/engine"
	"github.com/mk6i/mkdb/storage"
)

// Env is what the worker gives a run.
type Env struct {
	Scratch string            // directory this run may use for worlds
	Fatal   map[string]string // step key -> class of a fatal death observed in an earlier attempt
	Journal func(key string)  // called before every step that may die fatally
}

type RunResult struct {
	Violations    []*Violation     `json:"violations,omitempty"`
	Stats         map[string]int64 `json:"stats"`
	EventHash     string           `json:"event_hash"`
	Fingerprints  []string         `json:"fingerprints,omitempty"`
	SimMs         int64            `json:"sim_ms"`
	Abandoned     string           `json:"abandoned,omitempty"`      // run ended early for a reason that is not a violation
	PressureHints []int64          `json:"pressure_hints,omitempty"` // cache events at which a page not held by the file sat clean in the cache (main timeline)
	Harness       string           `json:"harness,omitempty"`        // harness trouble (exit 2)
	Stmts         int              `json:"stmts"`
	Images        int              `json:"images"`
	StmtClass     []string         `json:"-"`                   // kind of each main-timeline statement, with "-refused" / "-refused-at-later-row"
	EvCounts      []int            `json:"ev_counts,omitempty"` // yield points per statement of the main timeline
	Trace         []string         `json:"trace,omitempty"`     // per-statement outcome digest of the main timeline
	DerivedPlan   *Plan            `json:"derived_plan,omitempty"`
}

func (r *RunResult) addStats(m map[string]int64) {
	for k, v := range m {
		r.Stats[k] += v
	}
}

type runner struct {
	plan   *Plan
	env    *Env
	res    *RunResult
	hash   hasher
	nWorld int
}

func monitorsFor(prop string) Monitors {
	switch prop {
	case "C13":
		return Monitors{Lock: true, Quiet: true}
	case "C12":
		return Monitors{Page: true}
	case "C15":
		return Monitors{LRU: true, Evict: true}
	case "C16", "C01", "C11", "C08":
		return Monitors{Evict: true}
	case "C02", "C03":
		return Monitors{Durable: true}
	}
	return Monitors{}
}

// RunPlan executes one plan: the main timeline, then every captured image.
func RunPlan(p *Plan, env *Env) *RunResult {
	r := &runner{plan: p, env: env, res: &RunResult{Stats: map[string]int64{}}, hash: 14695981039346656037}
	if env.Journal == nil {
		env.Journal = func(string) {}
	}
	r.runWorld(p, NewModel(), nil, "", nil)
	r.res.EventHash = fmt.Sprintf("%016x", uint64(r.hash))
	return r.res
}

func (r *runner) violate(v *Violation, path string) {
	v.ImgPath = path
	if v.Features == nil {
		v.Features = map[string]string{}
	}
	r.res.Violations = append(r.res.Violations, v)
}

func imgKey(path string, im *Image) string {
	k := fmt.Sprint(im.Idx)
	if im.Sub >= 0 {
		k += "." + fmt.Sprint(im.Sub)
	}
	if path == "" {
		return k
	}
	return path + "/" + k
}

// runWorld mounts a world (empty, or on a crash image), runs recovery if it
// is an image, runs the plan's statements and then explores captured images.
func (r *runner) runWorld(p *Plan, m *Model, img *Image, path string, chain []map[string]string, selChain ...ImageSel) {
	if img == nil {
		r.env.Journal("|main")
		if cls, ok := r.env.Fatal["|main"]; ok {
			r.violate(&Violation{Prop: r.plan.Prop, Oracle: "O-live", Features: map[string]string{"how": "fatal", "class": cls, "where": "main-timeline"},
				Detail: "the main timeline killed or hung the process: " + cls, StmtIdx: -1}, path)
			return
		}
	}
	dir := filepath.Join(r.env.Scratch, fmt.Sprintf("world%d", r.nWorld))
	r.nWorld++
	if err := os.MkdirAll(dir, 0755); err != nil {
		r.res.Harness = err.Error()
		return
	}
	defer os.RemoveAll(dir)
	var files map[string][]byte
	if img != nil {
		files = img.Files
	}
	w, err := NewWorld(dir, p.Knobs, r.plan.Prop, files)
	if err != nil {
		r.res.Harness = err.Error()
		return
	}
	w.mon = monitorsFor(r.plan.Prop)
	w.isMain = path == ""
	t := &timeline{r: r, w: w, m: m, plan: p, path: path, chain: chain, selChain: selChain}
	func() {
		defer func() {
			// harness bug guard: never leave a world mounted
			if x := recover(); x != nil {
				if _, ok := x.(simAbort); !ok {
					r.res.Harness = fmt.Sprintf("harness panic: %v", x)
					if os.Getenv("SIM_PANIC_STACK") != "" {
						r.res.Harness += "\n" + string(debug.Stack())
					}
				}
			}
			w.Unmount()
		}()
		ok := true
		if img != nil {
			ok = t.recoverImage(img)
		}
		if ok {
			t.run()
		}
		if r.res.Harness == "" && w.Viol == nil {
			if err := w.CheckShadows(); err != nil {
				r.res.Harness = err.Error()
			}
		}
	}()
	r.res.addStats(w.Stats)
	if w.isMain {
		r.res.PressureHints = w.PressureHints
	}
	r.res.SimMs += w.ClockMs
	r.hash.add(uint64(w.Hash))
	if t.shape != "" {
		r.res.Fingerprints = append(r.res.Fingerprints, t.shape)
	}
	if r.res.Harness != "" {
		return
	}
	// explore the images captured in this world
	for _, im := range w.Captured {
		if im.Admissible == nil || im.Skip {
			continue // never resolved (timeline stopped before) / taken inside an unmodelled statement
		}
		if len(r.env.Fatal) >= 6 {
			// this plan already killed six workers: enough evidence, do not
			// spend a process death on every remaining image
			r.res.Stats["images_skipped_after_fatal"]++
			continue
		}
		if im.Sel.Cont == nil {
			im.Sel.Cont = &Plan{}
		}
		cont := im.Sel.Cont
		cont.Knobs = mergeKnobs(p.Knobs, cont.Knobs)
		r.res.Images++
		sub := append([]map[string]string(nil), chain...)
		if img != nil {
			sub = append(sub, img.Info)
		}
		sc := append(append([]ImageSel(nil), selChain...), im.Sel)
		sc[len(sc)-1].Cont = nil
		r.runWorld(cont, nil, im, imgKey(path, im), sub, sc...)
		if r.res.Harness != "" {
			return
		}
	}
}

func mergeKnobs(parent, k Knobs) Knobs {
	if k.CacheCap == 0 {
		k.CacheCap = parent.CacheCap
	}
	if k.CheckEvery == 0 {
		k.CheckEvery = parent.CheckEvery
	}
	if k.TreeEvery == 0 {
		k.TreeEvery = parent.TreeEvery
	}
	k.ForceFlush = k.ForceFlush || parent.ForceFlush
	if k.FlushMargin == 0 {
		k.FlushMargin = parent.FlushMargin
	}
	k.CacheOnly = k.CacheOnly || parent.CacheOnly
	k.LazyWake = k.LazyWake || parent.LazyWake
	k.Quiet = k.Quiet || parent.Quiet
	return k
}

type timeline struct {
	r          *runner
	w          *World
	m          *Model
	plan       *Plan
	path       string
	shape      string
	stop       bool
	img        *Image
	chain      []map[string]string // infos of ancestor images (own image excluded)
	selChain   []ImageSel          // resolved selectors of the images on the path (own image included)
	phase      string
	unmodelled bool // a raw statement the model cannot follow may have changed the database
	// probes for the shape fingerprint
	probes map[string]bool
}

func (t *timeline) probe(p string) {
	if t.probes == nil {
		t.probes = map[string]bool{}
	}
	t.probes[p] = true
	t.w.count("probe_" + p)
}

func (t *timeline) violate(oracle, detail string, feat map[string]string, stmt int) {
	v := &Violation{Prop: t.r.plan.Prop, Oracle: oracle, Features: feat, Detail: detail, StmtIdx: stmt, Chain: t.chain, SelChain: t.selChain}
	if t.img != nil {
		if v.Features == nil {
			v.Features = map[string]string{}
		}
		for k, x := range t.img.Info {
			if _, ok := v.Features[k]; !ok && k != "ev" && k != "nW" && k != "nNew" && k != "hdr_changed" {
				v.Features[k] = x
			}
		}
	}
	t.r.violate(v, t.path)
	t.stop = true
}

func errClass(err error) string {
	if err == nil {
		return "none"
	}
	s := err.Error()
	for _, c := range []string{ETableNotExist, EColCount, ETypeMismatch, EIntRange, ERowTooLarge, ETableExists, EDBExists, EDBNotExist, ENoDB, EFieldNotFound,
		"record already exists", "cache is full", EOpenFiles, "WAL replay error", "unexpected EOF", "EOF", "unable to find", "decoding error", "table scan error", "unable to parse sql"} {
		if strings.Contains(s, c) {
			return c
		}
	}
	if len(s) > 48 {
		s = s[:48]
	}
	return s
}

// ---- recovery of a crash image ----

func filesHash(files map[string][]byte) string {
	h := sha256.New()
	keys := make([]string, 0, len(files))
	for k := range files {
		keys = append(keys, k)
	}
	sort.Strings(keys)
	for _, k := range keys {
		h.Write([]byte(k))
		h.Write([]byte{0})
		h.Write(files[k])
	}
	return hex.EncodeToString(h.Sum(nil))[:16]
}

func (t *timeline) initStorage(key string) (fatalOrErr bool) {
	w := t.w
	t.r.env.Journal(key)
	if cls, ok := t.r.env.Fatal[key]; ok {
		t.violate("O-recover", "startup recovery killed the process: "+cls, map[string]string{"how": "fatal", "class": cls}, -1)
		return true
	}
	w.inRecovery = true
	w.stmtKind = "recovery"
	var err error
	pmsg, ploc, viol := w.guarded(func() { err = storage.InitStorage() })
	w.inRecovery = false
	if viol != nil {
		t.r.violate(viol, t.path)
		t.stop = true
		return true
	}
	if pmsg != "" {
		t.violate("O-recover", fmt.Sprintf("startup recovery panicked: %s (in %s)", pmsg, ploc), map[string]string{"how": "panic", "class": panicClass(pmsg), "loc": ploc}, -1)
		return true
	}
	if err != nil {
		t.violate("O-recover", "startup recovery returned an error: "+err.Error(), map[string]string{"how": "error", "class": errClass(err)}, -1)
		return true
	}
	return false
}

// checkAllDBs compares every database with the model through temporary services.
func (t *timeline) checkAllDBs(m *Model, commit bool) *mismatch {
	w := t.w
	for _, dn := range m.Order {
		var rs *storage.RelationService
		var err error
		pmsg, ploc, _ := w.guarded(func() { rs, err = storage.OpenRelation(dn, true) })
		if pmsg != "" {
			return &mismatch{"open-panic", fmt.Sprintf("opening database %s panicked: %s (%s)", dn, pmsg, ploc)}
		}
		if err != nil {
			return &mismatch{"open-error", fmt.Sprintf("opening database %s: %v", dn, err)}
		}
		mm := w.compareDB(rs, m.DBs[dn], "", commit)
		// process death for the temporary service: nothing is flushed
		if st := w.byFS[rs.VerifStore()]; st != nil {
			w.kill(st)
		}
		w.closeWal(rs)
		if mm != nil {
			mm.detail = "database " + dn + ": " + mm.detail
			return mm
		}
	}
	// no database invented or lost
	rows, _, err := storage.ShowDB()
	if err != nil {
		return &mismatch{"showdb-error", err.Error()}
	}
	var got []string
	for _, r := range rows {
		got = append(got, fmt.Sprint(r.Vals[0]))
	}
	want := append(append([]string(nil), m.Order...), m.Ghosts...)
	sort.Strings(want)
	if strings.Join(got, ",") != strings.Join(want, ",") {
		return &mismatch{"databases", fmt.Sprintf("SHOW DATABASES lists %v, model has %v", got, want)}
	}
	return nil
}

func (w *World) closeWal(rs *storage.RelationService) {
	if c, ok := rs.VerifWalFile().(interface{ Close() error }); ok {
		c.Close()
	}
}

func (t *timeline) recoverImage(img *Image) bool {
	w := t.w
	t.img = img
	if img.Sel.GhostDir != "" {
		os.MkdirAll(filepath.Join("data", img.Sel.GhostDir), 0755) // the world directory is the working directory
		w.count("ghost_directory")
	}
	// images are file snapshots; directories without files that the earlier
	// history knows of are part of the image too
	if len(img.Admissible) > 0 {
		for _, g := range img.Admissible[0].Ghosts {
			os.MkdirAll(filepath.Join("data", g), 0755)
		}
	}
	w.PreStmt(-2, t.capReqsFor(-2))
	w.count("recoveries")
	if t.initStorage(t.path + "|recover") {
		return false
	}
	redo := w.Stats["replay_redo"]
	nontrivial := redo > 0 || (img.Info["site"] == "flush" && img.Info["subset"] != "complete" && img.Info["subset"] != "none")
	if nontrivial {
		t.r.res.Fingerprints = append(t.r.res.Fingerprints, "img:"+filesHash(img.Files))
	}
	if redo > 0 {
		w.count("recoveries_with_redo")
	}
	// contents must equal one admissible state
	var adopted *Model
	var firstMM *mismatch
	for i, cand := range img.Admissible {
		c := cand.Clone()
		if img.Sel.GhostDir != "" {
			c.Ghosts = append(c.Ghosts, img.Sel.GhostDir)
		}
		mm := t.checkAllDBs(c, true)
		if w.Viol != nil {
			break
		}
		if mm == nil {
			adopted = c
			w.count("adopted_" + img.AdmNames[i])
			break
		}
		if firstMM == nil || i == len(img.Admissible)-1 {
			if firstMM != nil {
				firstMM = &mismatch{mm.kind, fmt.Sprintf("vs %s: %s; vs %s: %s", img.AdmNames[0], firstMM.detail, img.AdmNames[i], mm.detail)}
			} else {
				firstMM = mm
			}
		}
	}
	if adopted == nil {
		if firstMM == nil {
			firstMM = &mismatch{"?", "no admissible state"}
		}
		t.violate("O-recover", fmt.Sprintf("after recovery the database equals none of the %d admissible states: %s", len(img.Admissible), firstMM.detail),
			map[string]string{"how": "contents", "class": firstMM.kind}, -1)
		return false
	}
	t.m = adopted
	// nested images taken inside the recovery flush are recoveries of the same state
	for _, im := range w.Captured {
		if im.Admissible == nil {
			im.Admissible = []*Model{adopted.Clone()}
			im.AdmNames = []string{"recovered"}
		}
	}
	// recovery is idempotent
	if img.Sel.Once {
		w.count("recovered_once_then_continued")
	} else {
		if t.initStorage(t.path + "|recover2") {
			return false
		}
		if mm := t.checkAllDBs(adopted.Clone(), false); mm != nil {
			t.violate("O-recover", "a second recovery changed the database: "+mm.detail, map[string]string{"how": "second-recovery", "class": mm.kind}, -1)
			return false
		}
	}
	// session of the continuation
	w.Sess = &engine.Session{}
	if adopted.Cur != "" {
		if res := t.execText("USE " + adopted.Cur); res.Err != nil || res.Panic != "" {
			t.violate("O-recover", fmt.Sprintf("USE %s after recovery failed: %v %s", adopted.Cur, res.Err, res.Panic), map[string]string{"how": "use-error"}, -1)
			return false
		}
	}
	t.img = img
	return true
}

// ---- the timeline ----

func (t *timeline) capReqsFor(stmt int) []capReq {
	var out []capReq
	for i := range t.plan.Images {
		if t.plan.Images[i].Stmt == stmt {
			out = append(out, capReq{&t.plan.Images[i], i})
		}
	}
	return out
}

func (t *timeline) execText(q string) (res ExecResult) {
	w := t.w
	var viol *Violation
	res.Panic, res.PanicLoc, viol = w.guarded(func() { res.Err = w.Sess.ExecQuery(q) })
	if viol != nil {
		t.r.violate(viol, t.path)
		t.stop = true
	}
	return
}

func (t *timeline) exec(s *Stmt) (res ExecResult) {
	w := t.w
	if w.Sess == nil {
		w.Sess = &engine.Session{}
	}
	switch s.Kind {
	case KRestart:
		return t.restart()
	case KRawSQL:
		if sel, ok := parseSelect(s.SQL); ok && w.Sess.RelationService != nil {
			var viol *Violation
			res.Panic, res.PanicLoc, viol = w.guarded(func() {
				res.Rows, res.Fields, res.Err = engine.EvaluateSelect(sel, w.Sess.RelationService)
			})
			if viol != nil {
				t.r.violate(viol, t.path)
				t.stop = true
			}
			w.count("raw_select")
			return res
		}
		w.count("raw_other")
		return t.execText(s.SQL)
	case KCreateDB, KUse, KShowDB:
		q, _ := s.SQLText()
		return t.execText(q)
	}
	useText := s.ViaText || w.Sess.RelationService == nil
	if s.Kind == KSelect && w.Sess.RelationService != nil {
		useText = false
	}
	if useText {
		if q, ok := s.SQLText(); ok {
			w.count("stmt_via_text")
			return t.execText(q)
		}
		if w.Sess.RelationService == nil {
			return t.execText("SELECT * FROM " + s.Table) // no database selected: any statement must be refused
		}
	}
	w.count("stmt_via_struct")
	var viol *Violation
	res.Panic, res.PanicLoc, viol = w.guarded(func() { res = execStruct(w.Sess, s) })
	if viol != nil {
		t.r.violate(viol, t.path)
		t.stop = true
	}
	return
}

// restart: clean shutdown of the current service (what the console's signal
// handler does), process exit, startup recovery, USE of the same database.
func (t *timeline) restart() (res ExecResult) {
	w := t.w
	var err error
	pmsg, ploc, viol := w.guarded(func() {
		if w.Sess != nil {
			err = w.Sess.Close()
		}
	})
	if viol != nil {
		t.r.violate(viol, t.path)
		t.stop = true
		return
	}
	if pmsg != "" {
		res.Panic, res.PanicLoc = pmsg, ploc
		return
	}
	if err != nil {
		res.Err = fmt.Errorf("close: %w", err)
		return
	}
	if w.Sess != nil && w.Sess.RelationService != nil {
		w.closeWal(w.Sess.RelationService)
	}
	w.KillAll()
	w.count("clean_restart")
	w.inRecovery = true
	pmsg, ploc, viol = w.guarded(func() { err = storage.InitStorage() })
	w.inRecovery = false
	if viol != nil {
		t.r.violate(viol, t.path)
		t.stop = true
		return
	}
	if pmsg != "" {
		res.Panic, res.PanicLoc = pmsg, ploc
		return
	}
	if err != nil {
		res.Err = fmt.Errorf("InitStorage: %w", err)
		return
	}
	w.Sess = &engine.Session{}
	if t.m.Cur != "" {
		r2 := t.execText("USE " + t.m.Cur)
		if r2.Err != nil || r2.Panic != "" {
			return r2
		}
	}
	return
}

func (t *timeline) dirsFor(i int) (pre []Directive, in []Directive) {
	for _, d := range t.plan.Directives {
		if d.Stmt != i {
			continue
		}
		if d.At < 0 {
			pre = append(pre, d)
		} else {
			in = append(in, d)
		}
	}
	return
}

// isRawDML: raw statement text that changes rows of existing tables only.
func isRawDML(q string) bool {
	q = strings.ToUpper(strings.TrimSpace(q))
	return strings.HasPrefix(q, "INSERT ") || strings.HasPrefix(q, "UPDATE ") || strings.HasPrefix(q, "DELETE ")
}

// adopt replaces the model's rows of the selected database by what the real
// executor returns now (after an unmodelled statement that succeeded).
func (t *timeline) adopt(db *MDB) error {
	w := t.w
	for _, tb := range db.Tables {
		o, err := w.observe(w.Sess.RelationService, tb.Name)
		if err != nil {
			return err
		}
		if len(o.Cols) != len(tb.Cols) {
			return fmt.Errorf("column count changed")
		}
		rows := make([]*MRow, len(o.Rows))
		for i := range o.Rows {
			if ti := tb.ColIdx("k"); ti < 0 || ti >= len(o.Rows[i]) || o.Rows[i][ti].K != "i" {
				// the model's WHERE clauses compare the tag column with integers;
				// a NULL or non-integer tag (raw INSERT without it) ends the modelling
				return fmt.Errorf("tag column is not an integer")
			}
			rows[i] = &MRow{ID: o.IDs[i], Vals: o.Rows[i]}
			if o.IDs[i] > db.MaxID {
				db.MaxID = o.IDs[i]
			}
		}
		tb.Rows = rows
	}
	return nil
}

func (t *timeline) resolveOutside(m *Model, name string) {
	if t.unmodelled {
		// the model no longer follows this timeline: images taken from here on
		// have no admissible state to be compared with and are not explored
		return
	}
	for _, im := range t.w.Captured {
		if im.Admissible == nil && !im.InStmt {
			im.Admissible = []*Model{m.Clone()}
			im.AdmNames = []string{name}
		}
	}
}

func (t *timeline) run() {
	w := t.w
	m := t.m
	if w.Sess == nil {
		w.Sess = &engine.Session{}
	}
	p := t.plan
	every := p.Knobs.CheckEvery
	if every <= 0 {
		every = 1
	}
	if p.Knobs.SparseObserve && t.path == "" {
		w.count("probe_giant_or_long_log_plan")
	}
	if p.Knobs.Quiet {
		if t.path == "" {
			w.count("quiet_plans_no_observer_after_successful_statements")
		}
		if every < 6 {
			every = 6 + len(p.Stmts)%7
		}
	}
	lastStmt := -1
	if p.Knobs.CacheOnly {
		t.unmodelled = true
	}
	for i := range p.Stmts {
		if t.stop || w.Viol != nil {
			break
		}
		s := &p.Stmts[i]
		lastStmt = i
		t.r.res.Stmts++
		reqs := t.capReqsFor(i)
		w.PreStmt(i, reqs)
		pre, in := t.dirsFor(i)
		w.stmtKind = "think"
		for _, d := range pre {
			w.Advance(d.Ms)
		}
		if p.Knobs.ForceFlush {
			margin := p.Knobs.FlushMargin
			if margin <= 0 {
				margin = 10
			}
			if d, _, c := w.Dirty(); c > 0 && d >= c-margin {
				w.count("forced_flush")
				w.Advance(tickPeriodMs)
			}
		}
		for _, rq := range reqs {
			if rq.sel.Site == SiteBoundary {
				// boundary image "before statement i" == after statement i-1
			}
		}
		t.resolveOutside(m, "acknowledged")
		var before *Model
		for _, rq := range reqs {
			if rq.sel.Site != SiteBoundary {
				before = m.Clone()
				break
			}
		}
		exp := m.Predict(s)
		if t.unmodelled {
			exp = &Expect{Unchecked: true, FailAt: -1}
		}
		// a raw (unmodelled) INSERT / UPDATE / DELETE: the model has no opinion
		// on its outcome, but it keeps following the tables - if the statement
		// is refused nothing may have changed, if it succeeds the observed
		// contents are adopted. Any other raw non-SELECT ends the modelling.
		vague := exp.Vague && !t.unmodelled
		if vague {
			w.count("vague_where_adopted_or_unchanged")
		}
		rawDML := (s.Kind == KRawSQL && isRawDML(s.SQL) || vague) && !t.unmodelled
		// a raw CREATE TABLE (a shape the model has no meaning for, e.g. a
		// column named twice): if it is refused the catalog must be as it was;
		// if it is accepted the modelling of this run ends
		rawCreate := s.Kind == KRawSQL && !t.unmodelled && strings.HasPrefix(strings.ToUpper(strings.TrimSpace(s.SQL)), "CREATE TABLE")
		if s.Kind == KRawSQL && !isSelectText(s.SQL) && !rawDML && !rawCreate {
			t.unmodelled = true
			w.count("raw_mutation")
		}
		w.BeginStmt(i, s.Kind, in)
		w.OpenFault = s.OpenFail
		res := t.exec(s)
		recOps := append([]byte(nil), w.stmtRecOps...)
		w.EndStmt()
		// boundary images after this statement: the process dies the moment the
		// statement has returned - before the observer queries below take the
		// store lock (which would let a flusher that is still waiting for its
		// turn run first, see Knobs.LazyWake)
		for _, rq := range reqs {
			if rq.sel.Site == SiteBoundary {
				w.CaptureBoundary(rq)
			}
		}
		if t.path == "" {
			t.r.res.EvCounts = append(t.r.res.EvCounts, w.evIdx)
			cls := s.Kind
			if res.Err != nil {
				cls += "-refused"
				if exp.FailAt > 0 {
					cls += "-at-later-row"
				}
			}
			t.r.res.StmtClass = append(t.r.res.StmtClass, cls)
			t.r.res.Trace = append(t.r.res.Trace, fmt.Sprintf("%s:%s:%s", s.Kind, errClass(res.Err), rowsDigest(res.Rows)))
		}
		if t.stop {
			break
		}
		if w.Viol != nil {
			break
		}
		if w.SessionLocks() != 0 {
			t.violate("O-live", fmt.Sprintf("statement %d (%s) returned while still holding the store lock: every later flush, CREATE TABLE or Close blocks forever", i, describe(s)),
				map[string]string{"how": "lock-leak", "stmt": s.Kind}, i)
			break
		}
		if w.Stats["lru_refuse"] > 0 && w.Viol == nil {
			// the cache refused a page: dirty pages filled it (ticks withheld).
			// The cache monitor has checked the refusal itself; what the engine
			// does after ErrLRUCacheFull is outside every listed property - but
			// one: C11 knows no exception for a failed insertion. The statement is
			// over (refused); whatever it did before, the trees must be well
			// formed. Contents are not judged.
			if w.Prop == "C11" && res.Panic == "" && res.Err != nil && w.Sess != nil && w.Sess.RelationService != nil {
				w.count("tree_walk_after_cache_refusal")
				if te, _ := w.CheckTrees(w.Sess.RelationService, false); te != nil {
					t.violate("O-tree", fmt.Sprintf("after statement %d (%s), which the page cache refused half-way: %s", i, describe(s), te.detail),
						map[string]string{"how": "tree", "class": te.kind, "after": "cache-refusal"}, i)
					break
				}
			}
			t.r.res.Abandoned = "precondition: page cache refused a page (full of dirty pages)"
			w.count("abandoned_cache_refused")
			t.stop = true
			break
		}
		if res.Panic != "" && strings.HasPrefix(res.PanicLoc, "sql.") {
			// the parser itself panicked: the statement does not parse, which puts
			// it outside C18 ("any statement that parses"); parser totality is
			// C09, a pure-function property this technique does not claim.
			// Counted and treated as a refused statement.
			w.count("parser_panic_out_of_scope")
			res.Err = fmt.Errorf("unable to parse sql: parser panicked: %s", res.Panic)
			res.Panic = ""
		}
		// ---- outcome ----
		if res.Panic != "" {
			t.violate("O-live", fmt.Sprintf("statement %d (%s) panicked: %s (in %s)", i, s.Kind, res.Panic, res.PanicLoc),
				map[string]string{"how": "panic", "class": panicClass(res.Panic), "loc": res.PanicLoc, "stmt": s.Kind}, i)
			break
		}
		if !exp.Unchecked && !exp.Either {
			if exp.OK && res.Err != nil {
				if strings.Contains(res.Err.Error(), "row ids exhausted") {
					// the database has handed out all 2^32 row ids (the counter
					// was raised artificially): nothing more can be promised
					t.r.res.Abandoned = "precondition: row ids exhausted"
					w.count("abandoned_row_ids_exhausted")
					t.stop = true
					break
				}
				if strings.Contains(res.Err.Error(), "cache is full") {
					if d, n, c := w.Dirty(); d >= c-1 || n >= c {
						t.r.res.Abandoned = "precondition: page cache full of dirty pages"
						w.count("abandoned_cache_full")
						t.stop = true
						break
					}
				}
				t.violate("O-outcome", fmt.Sprintf("statement %d (%s) must succeed but returned: %v", i, describe(s), res.Err),
					map[string]string{"how": "unexpected-error", "class": errClass(res.Err), "stmt": s.Kind}, i)
				break
			}
			if !exp.OK && res.Err == nil {
				t.violate("O-outcome", fmt.Sprintf("statement %d (%s) must be refused (%s) but succeeded", i, describe(s), strings.Join(exp.ErrAny, " / ")),
					map[string]string{"how": "missing-error", "class": strings.Join(exp.ErrAny, "/"), "stmt": s.Kind}, i)
				break
			}
			if !exp.OK {
				w.count("stmt_refused")
				if exp.FailAt > 0 {
					w.count("stmt_refused_" + s.Kind + "_at_later_row")
				} else {
					w.count("stmt_refused_" + s.Kind + "_" + strings.ReplaceAll(exp.ErrAny[0], " ", "_"))
				}
				ok := false
				for _, c := range exp.ErrAny {
					if strings.Contains(res.Err.Error(), c) {
						ok = true
					}
				}
				if !ok {
					w.count("stmt_refused_other_class")
				}
			}
		}
		if exp.OK && !exp.Unchecked {
			exp.Apply(m)
			w.count("stmt_ok_" + s.Kind)
			if s.Kind == KCreateDB && t.img == nil && (p.Knobs.BiasKey > 0 || p.Knobs.BiasLSN > 0 || p.Knobs.BiasOffset > 0) {
				if err := w.BiasHeader(s.DB, p.Knobs.BiasKey, p.Knobs.BiasLSN, p.Knobs.BiasOffset); err != nil {
					t.r.res.Harness = err.Error()
					t.stop = true
					break
				}
			}
		}
		t.noteProbes(s, exp, recOps)
		// ---- resolve admissible states of images taken inside this statement ----
		var walAdm []*Model
		var walNames []string
		for _, im := range w.Captured {
			if im.Admissible != nil || !im.InStmt || im.StmtIdx != i || t.unmodelled {
				continue
			}
			if s.Kind == KRawSQL || vague {
				im.Skip = true
				continue
			}
			switch im.Info["site"] {
			case "wal":
				// the prefix states are the same for every image of this
				// statement: built once, shared (they are cloned before use)
				if walAdm == nil {
					walAdm = []*Model{before}
					walNames = []string{"before"}
					if exp.OK || exp.FailAt > 0 {
						for k := 1; k <= exp.NOps; k++ {
							c := before.Clone()
							exp.ApplyPrefix(c, k)
							walAdm = append(walAdm, c)
							walNames = append(walNames, fmt.Sprintf("prefix-%d", k))
							bumpProgress()
						}
					}
				}
				im.Admissible = walAdm
				im.AdmNames = walNames
				annotateWalImage(im, recOps)
			default: // flush
				if s.Kind == KCreate && before != nil {
					im.Admissible = []*Model{m.Clone(), before}
					im.AdmNames = []string{"after", "before"}
				} else {
					im.Admissible = []*Model{m.Clone()}
					im.AdmNames = []string{"after"}
				}
			}
		}
		if s.Kind == KShowDB && res.Err == nil && !t.unmodelled {
			rows, _, err := storage.ShowDB()
			var got []string
			for _, r := range rows {
				got = append(got, fmt.Sprint(r.Vals[0]))
			}
			want := append(append([]string(nil), m.Order...), m.Ghosts...)
			sort.Strings(want)
			if err != nil || strings.Join(got, ",") != strings.Join(want, ",") {
				t.violate("O-contents", fmt.Sprintf("SHOW DATABASES lists %v (err %v), created were %v", got, err, want), map[string]string{"how": "contents", "class": "databases"}, i)
				break
			}
			w.count("showdb_checked")
		}
		// ---- contents ----
		if s.Kind == KSelect && exp.OK && !exp.Unchecked {
			db := m.CurDB()
			tb := db.Table(s.Table)
			o := &obsTable{}
			for _, c := range tb.Cols {
				o.Cols = append(o.Cols, c.Name)
			}
			for _, rw := range res.Rows {
				o.IDs = append(o.IDs, rw.RowID)
				vals := make([]Val, len(rw.Vals))
				for j, v := range rw.Vals {
					vals[j] = FromGo(v)
				}
				o.Rows = append(o.Rows, vals)
			}
			if mm := compareTable(db, tb, o, true); mm != nil {
				t.violate("O-contents", fmt.Sprintf("after statement %d: %s", i, mm.detail), map[string]string{"how": "contents", "class": mm.kind}, i)
				break
			}
		}
		if rawCreate && res.Err == nil {
			t.unmodelled = true
			w.count("raw_mutation")
		}
		if db := m.CurDB(); (rawDML || rawCreate) && !t.unmodelled && db != nil && w.Sess != nil && w.Sess.RelationService != nil && w.Viol == nil {
			if res.Err != nil {
				w.count("raw_dml_refused_checked")
				if mm := w.compareDB(w.Sess.RelationService, db, "", true); mm != nil && w.Viol == nil {
					if w.Stats["lru_refuse"] > 0 {
						t.r.res.Abandoned = "precondition: page cache refused a page during an observer query"
						w.count("abandoned_cache_refused")
						t.stop = true
						break
					}
					t.violate("O-contents", fmt.Sprintf("after statement %d (%s), which returned %q: %s", i, describe(s), errClass(res.Err), mm.detail),
						map[string]string{"how": "contents", "class": mm.kind, "after": "refused-raw"}, i)
					break
				}
			} else if err := t.adopt(db); err != nil {
				t.unmodelled = true
				w.count("raw_mutation")
			} else {
				w.count("raw_dml_adopted")
			}
		}
		if db := m.CurDB(); db != nil && w.Sess != nil && w.Sess.RelationService != nil && !exp.Unchecked {
			full := (i+1)%every == 0 || !exp.OK || s.Kind == KRestart || s.Kind == KUse || i == len(p.Stmts)-1
			only := ""
			if !full {
				only = s.Table
				if s.Kind == KCreate || s.Kind == KSelect || only == "" || (p.Knobs.SparseObserve && s.Kind == KInsert) || p.Knobs.Quiet {
					only = "-"
				}
			}
			if only != "-" {
				mm := w.compareDB(w.Sess.RelationService, db, only, true)
				if mm != nil && w.Viol == nil && w.Stats["lru_refuse"] > 0 {
					t.r.res.Abandoned = "precondition: page cache refused a page during an observer query"
					w.count("abandoned_cache_refused")
					t.stop = true
					break
				}
				if mm != nil && w.Viol == nil {
					feat := map[string]string{"how": "contents", "class": mm.kind}
					if !exp.OK {
						feat["after"] = "refused-" + s.Kind
						if exp.FailAt > 0 {
							feat["fail_at"] = ">0"
						} else {
							feat["fail_at"] = fmt.Sprint(exp.FailAt)
						}
					}
					t.violate("O-contents", fmt.Sprintf("after statement %d (%s): %s", i, describe(s), mm.detail), feat, i)
					break
				}
			}
		}
		if p.Knobs.TreeEvery > 0 && ((i+1)%p.Knobs.TreeEvery == 0 || i == len(p.Stmts)-1) && w.Sess != nil && w.Sess.RelationService != nil && w.Viol == nil {
			te, ts := w.CheckTrees(w.Sess.RelationService, true)
			w.count("tree_check")
			if ts.MaxDepth >= 1 {
				t.probe("tree_height2")
			}
			if ts.MaxDepth >= 2 {
				t.probe("tree_height3")
			}
			if ts.MaxDepth >= 3 {
				t.probe("tree_height4")
			}
			if te != nil {
				t.violate("O-tree", fmt.Sprintf("after statement %d: %s", i, te.detail), map[string]string{"how": "tree", "class": te.kind}, i)
				break
			}
		}
		t.resolveOutside(m, "acknowledged")
	}
	if w.Viol != nil && !t.stop {
		t.r.violate(w.Viol, t.path)
		t.stop = true
	}
	if !t.stop && p.Final == "close" && w.Sess != nil {
		w.PreStmt(len(p.Stmts), t.capReqsFor(len(p.Stmts)))
		w.BeginStmt(len(p.Stmts), KRestart, nil)
		var err error
		pmsg, _, _ := w.guarded(func() { err = w.Sess.Close() })
		w.EndStmt()
		if pmsg != "" || err != nil {
			t.violate("O-live", fmt.Sprintf("clean close failed: %v %s", err, pmsg), map[string]string{"how": "close-error"}, lastStmt)
		}
		for _, im := range w.Captured {
			if im.Admissible == nil && !t.unmodelled && !im.Skip {
				im.Admissible = []*Model{m.Clone()}
				im.AdmNames = []string{"acknowledged"}
			}
		}
		for _, rq := range t.capReqsFor(len(p.Stmts)) {
			if rq.sel.Site == SiteBoundary {
				w.CaptureBoundary(rq)
			}
		}
		t.resolveOutside(m, "acknowledged")
	}
	// shape fingerprint of this timeline
	if len(t.probes) > 0 {
		var ps []string
		for k := range t.probes {
			ps = append(ps, k)
		}
		sort.Strings(ps)
		t.shape = fmt.Sprintf("tl:%s|cap%d|t%d", strings.Join(ps, ","), capClass(p.Knobs.CacheCap), tableCount(m))
	}
}

func capClass(c int) int {
	switch {
	case c == 0:
		return 0
	case c <= 16:
		return 1
	case c <= 64:
		return 2
	}
	return 3
}

func tableCount(m *Model) int {
	n := 0
	for _, d := range m.DBs {
		n += len(d.Tables)
	}
	return n
}

func describe(s *Stmt) string {
	if q, ok := s.SQLText(); ok {
		if len(q) > 160 {
			q = q[:160] + "..."
		}
		return q
	}
	return fmt.Sprintf("%s %s (struct route, %d rows)", s.Kind, s.Table, len(s.Rows))
}

// noteProbes records reach probes derived from what the statement did.
func (t *timeline) noteProbes(s *Stmt, exp *Expect, recOps []byte) {
	w := t.w
	if s.Kind == KInsert && exp.OK {
		if db := t.m.CurDB(); db != nil {
			if tb := db.Table(s.Table); tb != nil && len(s.ColNames) == 0 {
				for _, row := range s.Rows {
					if len(row) == len(tb.Cols) && EncSize(tb.Cols, row) == MaxRowBytes {
						t.probe("row_exactly_400_bytes")
					}
				}
			}
		}
		for _, row := range s.Rows {
			for _, v := range row {
				switch {
				case v.IsNull():
					t.probe("val_null")
				case v.K == "i" && (v.I == math.MaxInt32 || v.I == math.MinInt32):
					t.probe("val_int32_extreme")
				case v.K == "i" && (v.I == math.MaxInt64 || v.I == math.MinInt64):
					t.probe("val_int64_extreme")
				case v.K == "s" && len(v.S) == 0:
					t.probe("val_empty_string")
				case v.K == "s" && !utf8.Valid(v.S):
					t.probe("val_non_utf8_string")
				}
			}
		}
		for _, op := range recOps {
			if op == 1 {
				t.probe("root_move")
			}
		}
		if len(s.Rows) > 1 {
			t.probe("multirow_insert")
		}
	}
	if exp.OK && exp.NOps > 1 && (s.Kind == KUpdate || s.Kind == KDelete) {
		t.probe("multirow_" + s.Kind)
	}
	if w.Stats["cold_read"] > 0 {
		t.probe("cold_read")
	}
	if w.Stats["lru_evict"] > 0 {
		t.probe("evict")
	}
	if w.Stats["tick_delivered_in_stmt"] > 0 {
		t.probe("tick_in_stmt")
	}
	if w.Stats["clean_restart"] > 0 {
		t.probe("restart")
	}
	if s.Kind == KDelete && exp.OK && exp.NOps > 0 {
		t.probe("delete")
	}
}

// annotateWalImage derives signature features of a log-cut image from the
// list of record kinds the statement wrote.
func annotateWalImage(im *Image, recOps []byte) {
	var ev int
	fmt.Sscan(im.Info["ev"], &ev)
	rec, phase := ev/3, ev%3
	complete := rec
	torn := "no"
	if im.Info["cut"] == "write" {
		switch phase {
		case 1:
			torn = "yes"
		case 2:
			complete = rec + 1
		}
	}
	name := func(i int) string {
		if i < 0 || i >= len(recOps) {
			return "none"
		}
		return []string{"insert", "update", "delete"}[recOps[i]%3]
	}
	im.Info["torn"] = torn
	im.Info["last_rec"] = name(complete - 1)
	im.Info["next_rec"] = name(complete)
}
