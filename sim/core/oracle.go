package core

import (
	"bytes"
	"fmt"
	"runtime"
	"strings"

	"github.com/mk6i/mkdb/engine"
	"github.com/mk6i/mkdb/storage"
)

// panicInfo extracts the innermost mkdb frame of the current panic.
func panicInfo(r interface{}) (msg, loc string) {
	msg = fmt.Sprint(r)
	pcs := make([]uintptr, 64)
	n := runtime.Callers(3, pcs)
	frames := runtime.CallersFrames(pcs[:n])
	for {
		f, more := frames.Next()
		if strings.Contains(f.Function, "github.com/mk6i/mkdb/") && !strings.Contains(f.Function, "Verif") && !strings.Contains(f.Function, "verif") {
			loc = f.Function[strings.LastIndex(f.Function, "/")+1:]
			break
		}
		if !more {
			break
		}
	}
	return msg, loc
}

func panicClass(msg string) string {
	switch {
	case strings.Contains(msg, "interface conversion"):
		return "interface-conversion"
	case strings.Contains(msg, "index out of range"):
		return "index-out-of-range"
	case strings.Contains(msg, "nil pointer"):
		return "nil-pointer"
	case strings.Contains(msg, "slice bounds"):
		return "slice-bounds"
	case strings.Contains(msg, "invalid node type"):
		return "invalid-node-type"
	case strings.Contains(msg, "no comparison available"):
		return "no-comparison"
	}
	if len(msg) > 40 {
		msg = msg[:40]
	}
	return msg
}

// guarded runs f under recover; a simAbort is re-reported through viol.
func (w *World) guarded(f func()) (pmsg, ploc string, viol *Violation) {
	defer func() {
		if r := recover(); r != nil {
			if a, ok := r.(simAbort); ok {
				viol = a.v
				return
			}
			pmsg, ploc = panicInfo(r)
			if pmsg == "" {
				pmsg = "panic"
			}
		}
	}()
	f()
	return
}

// obsTable is what SELECT * returned.
type obsTable struct {
	Cols []string
	IDs  []uint32
	Rows [][]Val
}

// observe runs SELECT * FROM table through the real executor.
func (w *World) observe(rs *storage.RelationService, table string) (*obsTable, error) {
	var rows []*storage.Row
	var fields []*storage.Field
	var err error
	pmsg, ploc, viol := w.guarded(func() {
		rows, fields, err = engine.EvaluateSelect(selectStarAST(table), rs)
	})
	if viol != nil {
		return nil, fmt.Errorf("aborted: %s", viol.Detail)
	}
	if pmsg != "" {
		return nil, fmt.Errorf("panic in SELECT * FROM %s: %s at %s", table, pmsg, ploc)
	}
	if err != nil {
		return nil, err
	}
	o := &obsTable{}
	for _, f := range fields {
		o.Cols = append(o.Cols, fmt.Sprint(f.Column))
	}
	for _, r := range rows {
		o.IDs = append(o.IDs, r.RowID)
		vals := make([]Val, len(r.Vals))
		for i, v := range r.Vals {
			vals[i] = FromGo(v)
		}
		o.Rows = append(o.Rows, vals)
	}
	return o, nil
}

type mismatch struct {
	kind   string // class of the difference
	detail string
}

func (m *mismatch) Error() string { return m.kind + ": " + m.detail }

// compareTable checks one observed table against the model table. When
// commit is true, ids of rows seen for the first time are recorded.
func compareTable(db *MDB, t *MTable, o *obsTable, commit bool) *mismatch {
	if len(o.Cols) != len(t.Cols) {
		return &mismatch{"columns", fmt.Sprintf("table %s: %d columns returned, %d declared", t.Name, len(o.Cols), len(t.Cols))}
	}
	for i, c := range t.Cols {
		if o.Cols[i] != c.Name {
			return &mismatch{"columns", fmt.Sprintf("table %s: column %d is %q, declared %q", t.Name, i, o.Cols[i], c.Name)}
		}
	}
	if len(o.Rows) != len(t.Rows) {
		kind := "row-lost"
		if len(o.Rows) > len(t.Rows) {
			kind = "row-extra"
		}
		return &mismatch{kind, fmt.Sprintf("table %s: %d rows returned, model has %d%s", t.Name, len(o.Rows), len(t.Rows), firstDiff(t, o))}
	}
	for i, r := range t.Rows {
		if len(o.Rows[i]) != len(r.Vals) {
			return &mismatch{"value", fmt.Sprintf("table %s row %d: %d values returned, the table has %d columns", t.Name, i, len(o.Rows[i]), len(r.Vals))}
		}
		for j := range r.Vals {
			if !r.Vals[j].Equal(o.Rows[i][j]) {
				return &mismatch{"value", fmt.Sprintf("table %s row %d column %s: got %s, model has %s", t.Name, i, t.Cols[j].Name, o.Rows[i][j], r.Vals[j])}
			}
		}
	}
	var prev uint32
	maxSeen := db.MaxID
	for i, r := range t.Rows {
		id := o.IDs[i]
		if i > 0 && id <= prev {
			return &mismatch{"id-order", fmt.Sprintf("table %s: row ids not strictly increasing at row %d (%d after %d)", t.Name, i, id, prev)}
		}
		prev = id
		if r.ID != 0 {
			if r.ID != id {
				return &mismatch{"id-changed", fmt.Sprintf("table %s row %d: row id changed from %d to %d", t.Name, i, r.ID, id)}
			}
		} else {
			if id <= db.MaxID {
				return &mismatch{"id-reused", fmt.Sprintf("table %s row %d: new row got id %d, but id %d was already handed out", t.Name, i, id, db.MaxID)}
			}
		}
		if id > maxSeen {
			maxSeen = id
		}
	}
	if commit {
		for i, r := range t.Rows {
			r.ID = o.IDs[i]
		}
		// MaxID is raised by the caller after all tables were compared
	}
	return nil
}

func firstDiff(t *MTable, o *obsTable) string {
	n := len(o.Rows)
	if len(t.Rows) < n {
		n = len(t.Rows)
	}
	for i := 0; i < n; i++ {
		for j := range t.Rows[i].Vals {
			if j < len(o.Rows[i]) && !t.Rows[i].Vals[j].Equal(o.Rows[i][j]) {
				return fmt.Sprintf("; first difference at row %d: got %v, model %v", i, o.Rows[i], t.Rows[i].Vals)
			}
		}
	}
	return fmt.Sprintf("; common prefix of %d rows agrees", n)
}

// compareDB checks all tables (or only `only` if non-empty) and the catalog
// of the database served by rs against the model database.
func (w *World) compareDB(rs *storage.RelationService, db *MDB, only string, commit bool) *mismatch {
	var maxID uint32 = db.MaxID
	for _, t := range db.Tables {
		if only != "" && t.Name != only {
			continue
		}
		o, err := w.observe(rs, t.Name)
		if err != nil {
			return &mismatch{"select-error", fmt.Sprintf("SELECT * FROM %s: %v", t.Name, err)}
		}
		if mm := compareTable(db, t, o, commit); mm != nil {
			return mm
		}
		for _, id := range o.IDs {
			if id > maxID {
				maxID = id
			}
		}
		w.count("table_checked")
	}
	if only == "" {
		// catalog: declared columns unchanged, no table lost or invented
		o, err := w.observe(rs, "sys_schema")
		if err != nil {
			return &mismatch{"select-error", fmt.Sprintf("SELECT * FROM sys_schema: %v", err)}
		}
		type ent struct {
			t, f string
			ty   int64
			ln   int64
		}
		want := []ent{
			{"sys_pages", "table_name", TVarchar, 255}, {"sys_pages", "file_offset", TBigInt, 0},
			{"sys_schema", "table_name", TVarchar, 255}, {"sys_schema", "field_name", TVarchar, 255},
			{"sys_schema", "field_type", TInt, 0}, {"sys_schema", "field_length", TInt, 255},
		}
		for _, t := range db.Tables {
			for _, c := range t.Cols {
				want = append(want, ent{t.Name, c.Name, int64(c.Type), c.Len})
			}
		}
		if len(o.Rows) != len(want) {
			return &mismatch{"catalog", fmt.Sprintf("sys_schema has %d rows, model expects %d", len(o.Rows), len(want))}
		}
		for i, e := range want {
			r := o.Rows[i]
			if len(r) != 4 || string(r[0].S) != e.t || string(r[1].S) != e.f || r[2].I != e.ty || (i >= 6 && r[3].I != e.ln) {
				return &mismatch{"catalog", fmt.Sprintf("sys_schema row %d is %v, model expects (%s,%s,%d,%d)", i, r, e.t, e.f, e.ty, e.ln)}
			}
		}
		for _, id := range o.IDs {
			if id > maxID {
				maxID = id
			}
		}
		op, err := w.observe(rs, "sys_pages")
		if err != nil {
			return &mismatch{"select-error", fmt.Sprintf("SELECT * FROM sys_pages: %v", err)}
		}
		names := []string{"sys_pages", "sys_schema"}
		for _, t := range db.Tables {
			names = append(names, t.Name)
		}
		if len(op.Rows) != len(names) {
			return &mismatch{"catalog", fmt.Sprintf("sys_pages has %d rows, model expects %d", len(op.Rows), len(names))}
		}
		seen := map[int64]bool{}
		for i, nm := range names {
			if string(op.Rows[i][0].S) != nm {
				return &mismatch{"catalog", fmt.Sprintf("sys_pages row %d names %q, model expects %q", i, op.Rows[i][0].S, nm)}
			}
			off := op.Rows[i][1].I
			if seen[off] {
				return &mismatch{"catalog", fmt.Sprintf("sys_pages: two tables share root offset %d", off)}
			}
			seen[off] = true
		}
		for _, id := range op.IDs {
			if id > maxID {
				maxID = id
			}
		}
		w.count("catalog_checked")
	}
	if commit {
		db.MaxID = maxID
	}
	return nil
}

// ---- O-tree (C11) ----

var pageTableRel = storage.Relation{Fields: []storage.FieldDef{
	{Name: "table_name", DataType: storage.TypeVarchar, Len: 255},
	{Name: "file_offset", DataType: storage.TypeBigInt},
}}

type treeErr struct{ kind, detail string }

type walker struct {
	fs                *storage.VerifStore
	visited           map[uint64]string
	leaves            []storage.VerifNodeView
	depth             int
	err               *treeErr
	nodes             int
	maxDepth          int
	internalSplitSeen bool
}

func (k *walker) fail(kind, f string, a ...interface{}) {
	if k.err == nil {
		k.err = &treeErr{kind, fmt.Sprintf(f, a...)}
	}
}

func (k *walker) walk(tree string, off uint64, lo, hi int64, depth int) {
	if k.err != nil {
		return
	}
	if depth > 12 {
		k.fail("too-deep", "%s: depth exceeds 12 at page %d (cycle?)", tree, off)
		return
	}
	if prev, ok := k.visited[off]; ok {
		k.fail("page-twice", "page %d reached twice (in %s and %s)", off, prev, tree)
		return
	}
	k.visited[off] = tree
	v, _, err := k.fs.VerifPeek(off)
	if err != nil {
		k.fail("unreadable", "%s: page %d: %v", tree, off, err)
		return
	}
	k.nodes++
	if v.Offset != off {
		k.fail("offset-field", "%s: page at %d says it lives at %d", tree, off, v.Offset)
		return
	}
	if !v.SlotsOK {
		k.fail("slots", "%s: page %d has an offset-array entry without a cell", tree, off)
		return
	}
	var prevKey int64 = -1
	for i, c := range v.Cells {
		if int64(c.Key) <= prevKey {
			k.fail("key-order", "%s: page %d: key %d at slot %d not above %d", tree, off, c.Key, i, prevKey)
			return
		}
		prevKey = int64(c.Key)
		if int64(c.Key) < lo || (hi >= 0 && int64(c.Key) >= hi) {
			k.fail("separator-bounds", "%s: page %d: key %d outside the bounds [%d,%d) given by its parent", tree, off, c.Key, lo, hi)
			return
		}
	}
	if v.Leaf {
		if v.NumSlots > storage.VerifMaxLeafCells {
			k.fail("over-capacity", "%s: leaf %d holds %d cells (capacity %d)", tree, off, v.NumSlots, storage.VerifMaxLeafCells)
			return
		}
		if k.depth < 0 {
			k.depth = depth
		} else if k.depth != depth {
			k.fail("leaf-depth", "%s: leaf %d at depth %d, others at %d", tree, off, depth, k.depth)
			return
		}
		k.leaves = append(k.leaves, v)
		return
	}
	if v.NumSlots > storage.VerifMaxInternalCells {
		k.fail("over-capacity", "%s: internal node %d holds %d cells (capacity %d)", tree, off, v.NumSlots, storage.VerifMaxInternalCells)
		return
	}
	if v.NumSlots == 0 {
		k.fail("empty-internal", "%s: internal node %d has no cells", tree, off)
		return
	}
	if depth+1 > k.maxDepth {
		k.maxDepth = depth + 1
	}
	curLo := lo
	for _, c := range v.Cells {
		k.walk(tree, c.Child, curLo, int64(c.Key), depth+1)
		curLo = int64(c.Key)
	}
	k.walk(tree, v.Right, curLo, hi, depth+1)
}

// TreeStats describes the shapes a tree check saw.
type TreeStats struct {
	Trees, Nodes, Leaves, MaxDepth int
}

// CheckTrees walks every tree of the store from its root.
func (w *World) CheckTrees(rs *storage.RelationService, lookups bool) (*treeErr, TreeStats) {
	var ts TreeStats
	fs := rs.VerifStore()
	_, ptRoot, _, _ := fs.VerifHeader()
	visited := map[uint64]string{}
	// page table first
	roots := []struct {
		name string
		off  uint64
	}{{"sys_pages", ptRoot}}
	for i := 0; i < len(roots); i++ {
		r := roots[i]
		k := &walker{fs: fs, visited: visited, depth: -1}
		k.walk(r.name, r.off, 0, -1, 0)
		if k.err != nil {
			return k.err, ts
		}
		ts.Trees++
		ts.Nodes += k.nodes
		ts.Leaves += len(k.leaves)
		if k.maxDepth > ts.MaxDepth {
			ts.MaxDepth = k.maxDepth
		}
		// leaf chain
		for j, lf := range k.leaves {
			if j == 0 && lf.HasLSib {
				return &treeErr{"leaf-chain", fmt.Sprintf("%s: leftmost leaf %d has a left sibling %d", r.name, lf.Offset, lf.LSib)}, ts
			}
			if j == len(k.leaves)-1 && lf.HasRSib {
				return &treeErr{"leaf-chain", fmt.Sprintf("%s: rightmost leaf %d has a right sibling %d", r.name, lf.Offset, lf.RSib)}, ts
			}
			if j+1 < len(k.leaves) {
				nx := k.leaves[j+1]
				if !lf.HasRSib || lf.RSib != nx.Offset {
					return &treeErr{"leaf-chain", fmt.Sprintf("%s: leaf %d: right sibling is %v/%d, next leaf in tree order is %d", r.name, lf.Offset, lf.HasRSib, lf.RSib, nx.Offset)}, ts
				}
				if !nx.HasLSib || nx.LSib != lf.Offset {
					return &treeErr{"leaf-chain", fmt.Sprintf("%s: leaf %d: left sibling is %v/%d, previous leaf in tree order is %d", r.name, nx.Offset, nx.HasLSib, nx.LSib, lf.Offset)}, ts
				}
			}
		}
		// keys ascending across leaves
		var prev int64 = -1
		var live []uint32
		for _, lf := range k.leaves {
			for _, c := range lf.Cells {
				if int64(c.Key) <= prev {
					return &treeErr{"key-order", fmt.Sprintf("%s: key %d in leaf %d not above %d in the previous leaf", r.name, c.Key, lf.Offset, prev)}, ts
				}
				prev = int64(c.Key)
				if !c.Deleted {
					live = append(live, c.Key)
				}
			}
		}
		if lookups {
			step := 1
			if len(live) > 400 {
				step = len(live) / 400
			}
			rs.StartTxn()
			for j := 0; j < len(live); j += step {
				found, _, err := fs.VerifFindCell(r.off, live[j])
				if err != nil || !found {
					rs.EndTxn()
					return &treeErr{"lookup", fmt.Sprintf("%s: stored key %d not found by point lookup from the root (err %v)", r.name, live[j], err)}, ts
				}
			}
			keys, err := fs.VerifScanLeft(r.off)
			rs.EndTxn()
			if err != nil {
				return &treeErr{"scan-left", fmt.Sprintf("%s: right-to-left scan failed: %v", r.name, err)}, ts
			}
			if len(keys) != len(live) {
				return &treeErr{"scan-left", fmt.Sprintf("%s: right-to-left scan visits %d keys, left-to-right %d", r.name, len(keys), len(live))}, ts
			}
			for j := range keys {
				if keys[j] != live[len(live)-1-j] {
					return &treeErr{"scan-left", fmt.Sprintf("%s: right-to-left scan is not the reverse of left-to-right at position %d", r.name, j)}, ts
				}
			}
		}
		if i == 0 {
			// decode the page table to find the other roots
			for _, lf := range k.leaves {
				for _, c := range lf.Cells {
					if c.Deleted {
						continue
					}
					tp := storage.Tuple{Relation: &pageTableRel, Vals: map[string]interface{}{}}
					if err := tp.Decode(bytes.NewBuffer(c.Val)); err != nil {
						return &treeErr{"catalog-decode", fmt.Sprintf("sys_pages cell %d does not decode: %v", c.Key, err)}, ts
					}
					name, _ := tp.Vals["table_name"].(string)
					off, _ := tp.Vals["file_offset"].(int64)
					if name == "sys_pages" {
						continue
					}
					roots = append(roots, struct {
						name string
						off  uint64
					}{name, uint64(off)})
				}
			}
		}
	}
	return nil, ts
}
