package core

import (
	"bytes"
	"fmt"
	"sort"

	"github.com/mk6i/mkdb/storage"
)

// ---- O-page (C12): node <-> bytes at the disk seam ----

func viewDiff(a, b storage.VerifNodeView) string {
	switch {
	case a.Leaf != b.Leaf:
		return "node kind"
	case a.Offset != b.Offset:
		return "file offset"
	case a.LSN != b.LSN:
		return "LSN"
	case a.HasLSib != b.HasLSib || a.HasRSib != b.HasRSib:
		return "sibling flags"
	case a.LSib != b.LSib || a.RSib != b.RSib:
		return "sibling offsets"
	case a.Right != b.Right:
		return "right pointer"
	case a.NumSlots != b.NumSlots || len(a.Cells) != len(b.Cells):
		return "cell count"
	case !a.SlotsOK || !b.SlotsOK:
		return "offset array"
	}
	for i := range a.Cells {
		x, y := a.Cells[i], b.Cells[i]
		switch {
		case x.Key != y.Key:
			return fmt.Sprintf("key of cell %d", i)
		case x.Deleted != y.Deleted:
			return fmt.Sprintf("tombstone of cell %d", i)
		case x.Child != y.Child:
			return fmt.Sprintf("child pointer of cell %d", i)
		case !bytes.Equal(x.Val, y.Val):
			return fmt.Sprintf("value of cell %d", i)
		}
	}
	return ""
}

func nodeShape(v storage.VerifNodeView) string {
	k := "internal"
	if v.Leaf {
		k = "leaf"
	}
	return k
}

func (w *World) checkPageWrite(st *storeState, n *storage.VerifNode, b []byte) {
	w.count("opage_write_checked")
	view := n.VerifView()
	if len(b) != storage.VerifPageSize {
		w.raise("C12", "O-page", fmt.Sprintf("page at %d serialised to %d bytes", view.Offset, len(b)), map[string]string{"what": "size", "node": nodeShape(view)})
		return
	}
	dec, err := storage.VerifDecodePage(b)
	if err != nil {
		w.raise("C12", "O-page", fmt.Sprintf("page at %d does not decode: %v", view.Offset, err), map[string]string{"what": "decode-error", "node": nodeShape(view)})
		return
	}
	if d := viewDiff(view, dec); d != "" {
		w.raise("C12", "O-page", fmt.Sprintf("page at %d: %s differs between the node written and the decode of its bytes", view.Offset, d),
			map[string]string{"what": "roundtrip", "field": fieldClass(d), "node": nodeShape(view)})
		return
	}
	m := w.pageView[st.path]
	if m == nil {
		m = map[uint64]storage.VerifNodeView{}
		w.pageView[st.path] = m
	}
	m[view.Offset] = view
	// reach probes
	if view.Leaf {
		if view.NumSlots >= storage.VerifMaxLeafCells-1 {
			w.count("opage_leaf_near_full")
		}
		for _, c := range view.Cells {
			if c.Deleted {
				w.count("opage_leaf_with_tombstone")
				break
			}
		}
		if view.HasLSib && view.HasRSib {
			w.count("opage_leaf_both_sibs")
		}
		for _, c := range view.Cells {
			if len(c.Val) >= 390 {
				w.count("opage_leaf_big_value")
				break
			}
		}
	} else {
		w.count("opage_internal")
		if view.NumSlots >= 100 {
			w.count("opage_internal_100plus")
		}
	}
}

func fieldClass(d string) string {
	for _, p := range []string{"key", "tombstone", "child pointer", "value"} {
		if len(d) >= len(p) && d[:len(p)] == p {
			return p
		}
	}
	return d
}

func (w *World) checkPageRead(st *storeState, off uint64, b []byte, n *storage.VerifNode) {
	w.count("opage_read_checked")
	view := n.VerifView()
	// the disk returns what the shadow says was written
	sh := st.shadow.data
	var want []byte
	if int(off) < len(sh) {
		end := int(off) + storage.VerifPageSize
		if end > len(sh) {
			end = len(sh)
		}
		want = sh[off:end]
	}
	if !bytes.Equal(bytes.TrimRight(b, "\x00"), bytes.TrimRight(want, "\x00")) {
		w.raise("C12", "O-page", fmt.Sprintf("cold read of page %d returned bytes that were never written there", off), map[string]string{"what": "read-bytes"})
		return
	}
	if prev, ok := w.pageView[st.path][off]; ok {
		if d := viewDiff(prev, view); d != "" {
			w.raise("C12", "O-page", fmt.Sprintf("page at %d: %s differs between the node written and the node read back cold", off, d),
				map[string]string{"what": "cold-read", "field": fieldClass(d), "node": nodeShape(view)})
		}
	}
}

// ---- O-evict (C16/C15): nothing is lost when a page leaves the cache ----

// checkEvict compares the node being evicted with the decode of the bytes the
// data file holds at its offset (shadow file = every write that reached the
// file). Independent of the dirty flag: whatever the cache believes, a page
// that leaves it must be recoverable from the file as it is.
func (w *World) checkEvict(l *storage.LRUCache, off uint64, n *storage.VerifNode) {
	st := w.byCache[l]
	if st == nil || st.exited {
		return
	}
	w.count("oevict_checked")
	sh := st.shadow.data
	node := nodeShape(n.VerifView())
	if int(off)+storage.VerifPageSize > len(sh) {
		w.raise(w.Prop, "O-evict", fmt.Sprintf("page %d evicted but the data file ends at %d: its content exists nowhere", off, len(sh)),
			map[string]string{"what": "evict-no-image", "node": node})
		return
	}
	dec, err := storage.VerifDecodePage(sh[off : int(off)+storage.VerifPageSize])
	if err != nil {
		w.raise(w.Prop, "O-evict", fmt.Sprintf("page %d evicted but its image in the data file does not decode: %v", off, err),
			map[string]string{"what": "evict-no-image", "node": node})
		return
	}
	view := n.VerifView()
	dec.Offset = view.Offset
	if d := viewDiff(view, dec); d != "" {
		w.raise(w.Prop, "O-evict", fmt.Sprintf("page %d evicted but %s differs from its image in the data file", off, d),
			map[string]string{"what": "evict-differs", "field": fieldClass(d), "node": node})
	}
}

type unsavedPage struct {
	n  *storage.VerifNode
	ev int64
}

// sameAsFile: does the data file (shadow) hold exactly this node at its offset?
func sameAsFile(st *storeState, off uint64, n *storage.VerifNode) bool {
	sh := st.shadow.data
	if int(off)+storage.VerifPageSize > len(sh) {
		return false
	}
	dec, err := storage.VerifDecodePage(sh[off : int(off)+storage.VerifPageSize])
	if err != nil {
		return false
	}
	view := n.VerifView()
	dec.Offset = view.Offset
	return viewDiff(view, dec) == ""
}

// evictWindow runs at every event of a store's cache. It checks evictions
// against the file (checkEvict), keeps the set of pages that were stored in
// the cache clean although the file does not hold their content, and notes a
// pressure hint when such a page is still clean at the next moment the cache
// inserts a non-resident key: with every other slot dirty that insertion would
// evict it. The hint is not a violation; RunC16Diff re-runs the plan with the
// cache-pressure fault placed at that event, and only an eviction that really
// drops the page (O-evict) is reported.
func (w *World) evictWindow(l *storage.LRUCache, st *storeState, kind int, k uint64, n *storage.VerifNode) {
	w.lruEv++
	if kind == storage.VerifLRUEvict && n != nil {
		w.checkEvict(l, k, n)
	}
	us := w.unsaved[l]
	switch kind {
	case storage.VerifLRUEvict, storage.VerifLRUSetNew, storage.VerifLRURefuse:
		offs := make([]uint64, 0, len(us))
		for off := range us {
			offs = append(offs, off)
		}
		sort.Slice(offs, func(i, j int) bool { return offs[i] < offs[j] })
		for _, off := range offs {
			u := us[off]
			if off == k && kind != storage.VerifLRUEvict {
				continue
			}
			if u.n.VerifIsDirty() || sameAsFile(st, off, u.n) {
				delete(us, off)
				continue
			}
			if kind == storage.VerifLRUEvict && off == k {
				delete(us, off)
				continue
			}
			w.count("oevict_exposed_window")
			if w.isMain && len(w.PressureHints) < 4 {
				dup := false
				for _, h := range w.PressureHints {
					dup = dup || h == u.ev
				}
				if !dup {
					w.PressureHints = append(w.PressureHints, u.ev)
				}
			}
			delete(us, off)
		}
	}
	if (kind == storage.VerifLRUSetNew || kind == storage.VerifLRUSetHit) && n != nil {
		if !n.VerifIsDirty() && !sameAsFile(st, k, n) {
			if us == nil {
				us = map[uint64]unsavedPage{}
				if w.unsaved == nil {
					w.unsaved = map[*storage.LRUCache]map[uint64]unsavedPage{}
				}
				w.unsaved[l] = us
			}
			us[k] = unsavedPage{n: n, ev: w.lruEv}
			w.count("oevict_set_clean_unsaved")
		}
		if w.isMain && w.Knobs.PressureAt != 0 && w.lruEv == w.Knobs.PressureAt {
			w.inPressure = true
			for _, e := range l.VerifEntries() {
				if e.Key != k && !e.Node.VerifIsDirty() {
					e.Node.VerifSetDirty(true)
					w.count("pressure_pages_marked_dirty")
				}
			}
			w.inPressure = false
			w.count("pressure_applied")
		}
	}
}

// ---- O-lru (C15): shadow model of the page cache ----

type lruModel struct {
	cap  int
	keys []uint64 // most recent first
	vals map[uint64]*storage.VerifNode
	ops  int
}

func newLRUModel(cap int) *lruModel {
	return &lruModel{cap: cap, vals: map[uint64]*storage.VerifNode{}}
}

func (m *lruModel) idx(k uint64) int {
	for i, x := range m.keys {
		if x == k {
			return i
		}
	}
	return -1
}

func (m *lruModel) toFront(k uint64) {
	i := m.idx(k)
	if i < 0 {
		return
	}
	copy(m.keys[1:i+1], m.keys[:i])
	m.keys[0] = k
}

func (m *lruModel) remove(k uint64) {
	i := m.idx(k)
	if i < 0 {
		return
	}
	m.keys = append(m.keys[:i], m.keys[i+1:]...)
	delete(m.vals, k)
}

func (m *lruModel) reorder(keys []uint64) {
	for i := len(keys) - 1; i >= 0; i-- {
		m.toFront(keys[i])
	}
}

// victim: least recently used clean entry, ok=false if all dirty
func (m *lruModel) victim() (uint64, bool) {
	for i := len(m.keys) - 1; i >= 0; i-- {
		if !m.vals[m.keys[i]].VerifIsDirty() {
			return m.keys[i], true
		}
	}
	return 0, false
}

func (w *World) lruFail(detail string, what string) {
	w.raise("C15", "O-lru", detail, map[string]string{"what": what})
}

func (w *World) hookLRU(l *storage.LRUCache, kind int, key any, n *storage.VerifNode) {
	bumpProgress()
	k, _ := key.(uint64)
	w.h(13, uint64(kind), k)
	switch kind {
	case storage.VerifLRUEvict:
		w.count("lru_evict")
		if w.Knobs.CacheCap == 0 && w.byCache[l] != nil {
			w.count("probe_evict_at_default_capacity")
		}
	case storage.VerifLRURefuse:
		w.count("lru_refuse")
	case storage.VerifLRUGetMiss:
		w.count("lru_miss")
	case storage.VerifLRUGetHit:
		w.count("lru_hit")
	}
	if w.mon.Evict {
		if st := w.byCache[l]; st != nil && !st.exited {
			w.evictWindow(l, st, kind, k, n)
		}
	}
	m := w.lruShadow[l]
	if m == nil {
		return
	}
	m.ops++
	switch kind {
	case storage.VerifLRUSetHit:
		if m.idx(k) < 0 {
			w.lruFail(fmt.Sprintf("set(%d) treated as an update but the key is not resident", k), "set-hit-absent")
			return
		}
		m.vals[k] = n
		m.toFront(k)
	case storage.VerifLRUEvict:
		if len(m.keys) != m.cap {
			w.lruFail(fmt.Sprintf("entry %d evicted while the cache holds %d of %d entries", k, len(m.keys), m.cap), "evict-not-full")
		}
		if m.idx(k) < 0 {
			w.lruFail(fmt.Sprintf("evicted key %d was not resident", k), "evict-absent")
			return
		}
		if m.vals[k].VerifIsDirty() {
			w.lruFail(fmt.Sprintf("dirty page %d evicted", k), "evict-dirty")
		} else if v, ok := m.victim(); !ok || v != k {
			w.lruFail(fmt.Sprintf("evicted %d but the least recently used clean entry is %d", k, v), "evict-not-lru")
		}
		if m.vals[k] != n {
			w.lruFail(fmt.Sprintf("evicted entry %d does not hold the page last stored for it", k), "evict-stale")
		}
		w.count("lru_evict_checked")
		if m.idx(k) != len(m.keys)-1 {
			w.count("lru_evict_skipped_dirty")
		}
		m.remove(k)
	case storage.VerifLRUSetNew:
		if m.idx(k) >= 0 {
			w.lruFail(fmt.Sprintf("set(%d) inserted a second entry for a resident key", k), "set-new-present")
			return
		}
		m.keys = append([]uint64{k}, m.keys...)
		m.vals[k] = n
		if len(m.keys) > m.cap {
			w.lruFail(fmt.Sprintf("cache holds %d entries, capacity %d", len(m.keys), m.cap), "over-capacity")
		}
	case storage.VerifLRURefuse:
		_, anyClean := m.victim()
		if len(m.keys) != m.cap || m.idx(k) >= 0 || anyClean {
			w.lruFail(fmt.Sprintf("insertion of %d refused although the cache is not full of dirty pages (%d/%d entries, clean entry available: %v)", k, len(m.keys), m.cap, anyClean), "refuse-wrong")
		}
		w.count("lru_refuse_checked")
	case storage.VerifLRUGetHit:
		if m.idx(k) < 0 {
			w.lruFail(fmt.Sprintf("lookup of %d hit but the key is not resident", k), "get-hit-absent")
			return
		}
		if m.vals[k] != n {
			w.lruFail(fmt.Sprintf("lookup of %d returned a page other than the one last stored", k), "get-stale")
		}
		m.toFront(k)
	case storage.VerifLRUGetMiss:
		if m.idx(k) >= 0 {
			w.lruFail(fmt.Sprintf("lookup of resident key %d missed", k), "get-miss-resident")
		}
	}
	// compare resident set and recency order with the real structure
	if m.cap <= 64 || m.ops%64 == 0 {
		ents := l.VerifEntries()
		nIdx, nList := l.VerifLen()
		if nIdx != nList || nList != len(m.keys) {
			w.lruFail(fmt.Sprintf("cache has %d index entries and %d list entries, model %d", nIdx, nList, len(m.keys)), "size-mismatch")
			return
		}
		if nList > l.VerifCap() {
			w.lruFail(fmt.Sprintf("cache holds %d entries, capacity %d", nList, l.VerifCap()), "over-capacity")
		}
		for i, e := range ents {
			if e.Key != m.keys[i] {
				w.lruFail(fmt.Sprintf("recency order differs from the model at position %d: %d vs %d", i, e.Key, m.keys[i]), "order-mismatch")
				return
			}
			if e.Node != m.vals[e.Key] {
				w.lruFail(fmt.Sprintf("entry %d holds a page other than the one last stored", e.Key), "entry-stale")
				return
			}
		}
	}
}

// AttachLRUModel starts shadowing the given cache.
func (w *World) AttachLRUModel(l *storage.LRUCache) {
	m := newLRUModel(l.VerifCap())
	for _, e := range l.VerifEntries() {
		m.keys = append(m.keys, e.Key)
		m.vals[e.Key] = e.Node
	}
	w.lruShadow[l] = m
}
