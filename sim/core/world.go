package core

import (
	"fmt"
	"os"
	"path/filepath"
	"sort"
	"strings"
	"syscall"
	"time"

	"github.com/mk6i/mkdb/engine"
	"github.com/mk6i/mkdb/storage"
)

// A World is one simulated machine: a directory (the process cwd while the
// world is mounted), the real mkdb code running in it, the registry of live
// stores with the kernel's account of their locks and flushers, a virtual
// clock, shadow copies of every file built from the write hooks, and the
// invariant monitors that run inside the hooks.

const tickPeriodMs = 100

// Progress is bumped at every hook; the worker's watchdog reads it.
var Progress int64

type fileShadow struct {
	data   []byte
	synced int // wal only: length covered by the last fsync
}

func (f *fileShadow) writeAt(off int, b []byte) {
	if need := off + len(b); need > len(f.data) {
		f.data = append(f.data, make([]byte, need-len(f.data))...)
	}
	copy(f.data[off:], b)
}

type pageWrite struct {
	off uint64
	b   []byte
}

type storeState struct {
	id     int
	fs     *storage.VerifStore
	db     string
	path   string
	auto   bool
	shadow *fileShadow

	tick       chan time.Time
	yield      *gate
	resume     *gate
	feed       *gate // race build: wakes the goroutine that sends ticks
	feedStop   bool
	busy       bool // flusher is handling a tick
	parked     bool // flusher waits for the exclusive lock
	lazy       bool // ... the lock is free again but the flusher has not been given the CPU yet (Knobs.LazyWake)
	preempted  bool // parked although the lock was free: it lost the CPU just before calling Lock(), readers may still enter
	exclInTick int  // exclusive lock requests of the flusher since its last wake-up
	pending    bool // a tick arrived while busy (ticker channel capacity 1)
	exited     bool // flusher goroutine was told to stop / store closed
	killed     bool

	openedAt  int64
	ticksSeen int64

	readers     int
	writer      bool
	writerIsFl  bool
	flushWrites []pageWrite
	flushBase   []byte
	inFlush     bool
}

type walHandle struct {
	db     string
	path   string
	shadow *fileShadow
}

type hasher uint64

func (h *hasher) add(vals ...uint64) {
	x := uint64(*h)
	for _, v := range vals {
		for i := 0; i < 8; i++ {
			x ^= v & 0xff
			x *= 1099511628211
			v >>= 8
		}
	}
	*h = hasher(x)
}

func (h *hasher) addBytes(b []byte) {
	x := uint64(*h)
	for _, c := range b {
		x ^= uint64(c)
		x *= 1099511628211
	}
	*h = hasher(x)
}

type simAbort struct{ v *Violation }

type capReq struct {
	sel *ImageSel
	idx int
}

// Image is a captured crash image with its admissible model states.
type Image struct {
	Sel     ImageSel
	Idx     int
	Sub     int // >= 0: number of the enumerated subset, else -1
	Files   map[string][]byte
	StmtIdx int
	InStmt  bool
	Info    map[string]string
	// admissible states, resolved by the runner
	Admissible []*Model
	AdmNames   []string
	// Skip: taken while a raw (unmodelled) statement ran: the model does not
	// know its intermediate states, the image is not explored
	Skip bool
}

type World struct {
	Dir         string
	Knobs       Knobs
	Prop        string
	Sess        *engine.Session
	longLogSeen bool
	// OpenFault: "log" / "data" while a statement runs whose open of that file is to fail once
	OpenFault string

	stores  []*storeState
	byFS    map[*storage.VerifStore]*storeState
	byCache map[*storage.LRUCache]*storeState

	// O-evict: cache events of store caches, pages set while clean although the
	// data file does not hold their content, and the events at which such a
	// page was still exposed when the cache next had to make room
	exclWants     uint64
	pageWrites    int
	lruEv         int64
	unsaved       map[*storage.LRUCache]map[uint64]unsavedPage
	PressureHints []int64
	isMain        bool
	inPressure    bool
	lastStore     *storeState // store of the latest lock / access event (node marks carry no store)
	files         map[string]*fileShadow
	wals          map[any]*walHandle

	ClockMs int64
	cur     *storeState // flusher that holds the baton (nil = session/driver)

	// statement context
	inStmt        bool
	stmtIdx       int
	stmtKind      string
	evIdx         int
	walEvIdx      int
	flushIdx      int
	directives    []Directive
	stmtChanged   bool
	stmtChangedIn map[*storeState]bool // ... and in which stores (a flusher of another store is no concern)
	stmtLogged    bool
	stmtRecOps    []byte // op byte of every log record the statement wrote so far
	quietSuspect  string // a flusher wrote to the data file after the statement's first change, lock released
	inRecovery    bool
	sessLocks     int // locks the session task holds (any store)

	// image capture
	capReqs  []capReq
	Captured []*Image

	// monitors
	mon       Monitors
	pageView  map[string]map[uint64]storage.VerifNodeView
	lruShadow map[*storage.LRUCache]*lruModel

	inFlushLoop bool
	flushAcc    uint64

	Stats map[string]int64
	Hash  hasher
	Viol  *Violation // first violation raised by a monitor inside a hook
}

// Monitors selects the invariants evaluated inside hooks.
type Monitors struct {
	Lock    bool // O-lock
	Quiet   bool // O-quiet
	Page    bool // O-page
	LRU     bool // O-lru
	Durable bool // O-durable: the log is fsynced when a statement's log append ends
	Evict   bool // O-evict: a page leaving the cache equals its image in the data file
}

var curWorld *World

var tickerStub = make(chan time.Time) // never fires; for stores opened with no world

func installHooks() {
	storage.VerifSetHooks(&storage.VerifHooks{
		NodeMark: func(n *storage.VerifNode, d bool) {
			if w := curWorld; w != nil {
				w.hookNodeMark(n, d)
			}
		},
		StoreOpened: func(fs *storage.VerifStore, p string, a bool) {
			if w := curWorld; w != nil {
				w.hookStoreOpened(fs, p, a)
			}
		},
		TickerChan: func(fs *storage.VerifStore) <-chan time.Time {
			if w := curWorld; w != nil {
				return w.hookTickerChan(fs)
			}
			return tickerStub
		},
		Flusher: func(fs *storage.VerifStore, ph int) {
			if w := curWorld; w != nil {
				w.hookFlusher(fs, ph)
			}
		},
		Lock: func(fs *storage.VerifStore, op int) {
			if w := curWorld; w != nil {
				w.hookLock(fs, op)
			}
		},
		Close: func(fs *storage.VerifStore) {
			if w := curWorld; w != nil {
				w.hookClose(fs)
			}
		},
		Access: func(fs *storage.VerifStore, k int, off uint64) {
			if w := curWorld; w != nil {
				w.hookAccess(fs, k, off)
			}
		},
		PageWrite: func(fs *storage.VerifStore, n *storage.VerifNode, b []byte) {
			if w := curWorld; w != nil {
				w.hookPageWrite(fs, n, b)
			}
		},
		HeaderWrite: func(fs *storage.VerifStore, b []byte) {
			if w := curWorld; w != nil {
				w.hookHeaderWrite(fs, b)
			}
		},
		FlushLoopDone: func(fs *storage.VerifStore) {
			if w := curWorld; w != nil {
				w.hookFlushLoopDone(fs)
			}
		},
		PageRead: func(fs *storage.VerifStore, off uint64, b []byte, n *storage.VerifNode) {
			if w := curWorld; w != nil {
				w.hookPageRead(fs, off, b, n)
			}
		},
		WalOpened: func(f any, db string) {
			if w := curWorld; w != nil {
				w.hookWalOpened(f, db)
			}
		},
		WalIO: func(f any, k int, b []byte) {
			if w := curWorld; w != nil {
				w.hookWalIO(f, k, b)
			}
		},
		WalTruncate: func(f any, size int64) {
			if w := curWorld; w != nil {
				w.hookWalTruncate(f, size)
			}
		},
		WalFileOp: func(f any, op string, b []byte, size int64) {
			if w := curWorld; w != nil {
				w.hookWalFileOp(f, op, b, size)
			}
		},
		Replay: func(fs *storage.VerifStore, op uint8, lsn, pg uint64, cell uint32, redo bool) {
			if w := curWorld; w != nil {
				w.hookReplay(fs, op, lsn, pg, cell, redo)
			}
		},
		OpenFault: func(path string) error {
			if w := curWorld; w != nil {
				return w.hookOpenFault(path)
			}
			return nil
		},
		LRU: func(l *storage.LRUCache, k int, key any, n *storage.VerifNode) {
			if w := curWorld; w != nil {
				w.hookLRU(l, k, key, n)
			}
		},
	})
}

func init() { installHooks() }

// NewWorld mounts a world on dir (which must exist); files maps relative
// paths ("data/db/tbl") to initial contents.
func NewWorld(dir string, knobs Knobs, prop string, files map[string][]byte) (*World, error) {
	if curWorld != nil {
		return nil, fmt.Errorf("harness: a world is already mounted")
	}
	if err := os.RemoveAll(filepath.Join(dir, "data")); err != nil {
		return nil, err
	}
	// create database directories in sorted order so that the directory
	// listing order is a function of the image alone
	paths := make([]string, 0, len(files))
	for p := range files {
		paths = append(paths, p)
	}
	sort.Strings(paths)
	for _, p := range paths {
		full := filepath.Join(dir, p)
		if err := os.MkdirAll(filepath.Dir(full), 0755); err != nil {
			return nil, err
		}
		if err := os.WriteFile(full, files[p], 0644); err != nil {
			return nil, err
		}
	}
	if err := os.Chdir(dir); err != nil {
		return nil, err
	}
	w := &World{
		Dir: dir, Knobs: knobs, Prop: prop,
		byFS: map[*storage.VerifStore]*storeState{}, byCache: map[*storage.LRUCache]*storeState{},
		files: map[string]*fileShadow{}, wals: map[any]*walHandle{},
		Stats: map[string]int64{}, Hash: 14695981039346656037,
		pageView:  map[string]map[uint64]storage.VerifNodeView{},
		lruShadow: map[*storage.LRUCache]*lruModel{},
	}
	curWorld = w
	return w, nil
}

// Unmount tears the world down: lets parked flushers finish, stops every
// flusher goroutine and closes files without flushing (process death).
func (w *World) Unmount() {
	w.KillAll()
	curWorld = nil
}

// KillAll is process death: nothing more is written.
func (w *World) KillAll() {
	for _, st := range w.stores {
		w.kill(st)
	}
	w.Sess = nil
}

func (w *World) kill(st *storeState) {
	if st.killed {
		return
	}
	st.killed = true
	stuck := false
	if st.parked {
		if st.readers > 0 || st.writer {
			// a lock was leaked: the flusher can never get it. Leave its
			// goroutine parked (it touches nothing) instead of hanging here.
			stuck = true
			w.count("flusher_left_parked_on_leaked_lock")
		} else {
			w.runFlusher(st)
		}
	}
	closed := st.exited
	st.exited = true
	func() {
		defer func() { recover() }()
		st.fs.VerifKill(!closed && st.auto && !stuck)
	}()
	if st.auto {
		st.stopFeeder()
		if !stuck && st.yield != nil {
			st.yield.closeGate()
			st.resume.closeGate()
		}
	}
}

func (w *World) count(k string) { w.Stats[k]++ }

// h adds an event to the event-log hash. Events inside the write loop of a
// flush happen in Go map iteration order; they are accumulated commutatively
// and folded in when the loop ends, so the hash does not depend on that order.
func (w *World) h(vals ...uint64) {
	if w.inFlushLoop {
		var x hasher = 14695981039346656037
		x.add(vals...)
		w.flushAcc += uint64(x)
		return
	}
	w.Hash.add(vals...)
}

func (w *World) raise(prop, oracle, detail string, feat map[string]string) *Violation {
	v := &Violation{Prop: prop, Oracle: oracle, Features: feat, Detail: detail, StmtIdx: w.stmtIdx}
	if w.Viol == nil {
		w.Viol = v
	}
	return v
}

// abort raises and unwinds the statement (session context only).
func (w *World) abort(prop, oracle, detail string, feat map[string]string) {
	v := w.raise(prop, oracle, detail, feat)
	if w.cur == nil {
		panic(simAbort{v})
	}
}

func (w *World) shadowFor(path string) *fileShadow {
	if s, ok := w.files[path]; ok {
		return s
	}
	b, _ := os.ReadFile(path)
	s := &fileShadow{data: append([]byte(nil), b...), synced: len(b)}
	w.files[path] = s
	return s
}

// ---- hooks ----

func (w *World) hookStoreOpened(fs *storage.VerifStore, path string, auto bool) {
	bumpProgress()
	st := &storeState{id: len(w.stores), fs: fs, path: path, auto: auto, openedAt: w.ClockMs}
	parts := strings.Split(filepath.ToSlash(path), "/")
	if len(parts) >= 2 {
		st.db = parts[len(parts)-2]
	}
	st.shadow = w.shadowFor(path)
	if auto {
		st.makeAuto()
	}
	if w.Knobs.CacheCap > 0 {
		fs.VerifSetCacheCap(w.Knobs.CacheCap)
	}
	w.stores = append(w.stores, st)
	if w.cur == nil {
		w.lastStore = st
	}
	w.byFS[fs] = st
	w.byCache[fs.VerifCache()] = st
	if w.mon.LRU {
		w.AttachLRUModel(fs.VerifCache())
	}
	w.count("store_opened")
	w.h(1, uint64(st.id), b2u(auto))
}

func b2u(b bool) uint64 {
	if b {
		return 1
	}
	return 0
}

// makeAuto: the store gets a flusher (at creation or, since fix 5d..., when
// startFlusher is called after the header was read).
func (st *storeState) makeAuto() {
	st.auto = true
	st.tick = make(chan time.Time, 1)
	st.yield = newGate()
	st.resume = newGate()
	st.startFeeder()
}

func (w *World) hookTickerChan(fs *storage.VerifStore) <-chan time.Time {
	if st := w.byFS[fs]; st != nil {
		if !st.auto {
			// the flusher is started after the store was opened: ticks count from now
			st.makeAuto()
			st.openedAt = w.ClockMs
			st.ticksSeen = 0
		}
		return st.tick
	}
	return tickerStub
}

func (w *World) hookFlusher(fs *storage.VerifStore, phase int) {
	bumpProgress()
	st := w.byFS[fs]
	if st == nil {
		return
	}
	w.h(2, uint64(st.id), uint64(phase))
	if phase == storage.VerifFlusherWake {
		st.exclInTick = 0
		st.busy = true
		w.count("flusher_wake")
		return
	}
	// done
	st.busy = false
	w.count("flusher_done")
	if st.pending && !st.exited {
		st.pending = false
		st.tick <- time.Time{} // picked up by the same goroutine at its select
		st.busy = true
		w.count("tick_pending_delivered")
		return
	}
	st.yield.signal()
}

// runFlusher hands the baton to the flusher of st (new tick or resume) and
// waits until it parks or finishes.
func (w *World) runFlusher(st *storeState) {
	prev := w.cur
	w.cur = st
	if st.parked {
		st.parked = false
		st.resume.signal()
	} else {
		st.busy = true
		st.feedTick()
	}
	st.yield.wait()
	w.cur = prev
}

// Advance lets virtual time pass; ticks that become due are delivered.
func (w *World) Advance(ms int) {
	if ms <= 0 {
		return
	}
	w.ClockMs += int64(ms)
	w.h(3, uint64(ms))
	for i := 0; i < len(w.stores); i++ {
		st := w.stores[i]
		if !st.auto || st.exited || st.killed {
			continue
		}
		w.settle(st)
		due := (w.ClockMs-st.openedAt)/tickPeriodMs - st.ticksSeen
		if due <= 0 {
			continue
		}
		st.ticksSeen += due
		w.Stats["ticks_due"] += due
		if st.busy {
			if !st.pending {
				st.pending = true
				w.count("tick_queued_while_busy")
			} else {
				w.count("tick_dropped")
			}
			continue
		}
		w.count("tick_delivered")
		if w.inStmt {
			w.count("tick_delivered_in_stmt")
		}
		w.runFlusher(st)
		if st.parked {
			w.count("flusher_parked_on_lock")
		}
	}
}

func (w *World) yieldPoint() {
	if w.cur != nil || !w.inStmt || w.inFlushLoop {
		return
	}
	idx := w.evIdx
	w.evIdx++
	for _, d := range w.directives {
		if d.At == idx && d.Kind == "advance" {
			w.count("stall_in_stmt")
			w.Advance(d.Ms)
		}
	}
}

func (w *World) hookLock(fs *storage.VerifStore, op int) {
	bumpProgress()
	st := w.byFS[fs]
	if st == nil {
		return
	}
	w.h(4, uint64(st.id), uint64(op), b2u(w.cur != nil))
	if w.cur == nil {
		w.lastStore = st
	}
	if w.cur == nil && (op == storage.VerifLockWantShared || op == storage.VerifLockWantExcl) && !st.preempted {
		// the waiting flusher is first in line for the lock
		w.settle(st)
	}
	switch op {
	case storage.VerifLockWantShared:
		if st.writer {
			w.abort(w.Prop, "O-live", "shared lock requested while the exclusive lock is held: deadlock", map[string]string{"kind": "deadlock-shared-under-excl"})
			return
		}
		if st.parked && !st.preempted && st.readers > 0 {
			w.abort(w.Prop, "O-live", "nested shared lock while a flush waits for the exclusive lock: RWMutex deadlock", map[string]string{"kind": "deadlock-nested-shared"})
			return
		}
		st.readers++
		if w.cur == nil {
			w.sessLocks++
		}
		w.yieldPoint()
	case storage.VerifLockRelShared:
		st.readers--
		if w.cur == nil {
			w.sessLocks--
		}
		if st.readers == 0 && st.parked {
			if w.Knobs.LazyWake && w.cur == nil {
				st.lazy = true
				w.count("flusher_wake_deferred")
			} else {
				w.count("flusher_resumed_after_stmt")
				w.runFlusher(st)
			}
		}
		w.yieldPoint()
	case storage.VerifLockWantExcl:
		if w.cur == st && st.readers == 0 && !st.writer && w.Knobs.LazyWake {
			// the lock is free, but a goroutine can lose the CPU just before it
			// calls Lock(): now and then the flusher stays behind here while the
			// session runs on (it has not announced itself, so readers get in)
			w.exclWants++
			st.exclInTick++
			// a second exclusive section inside one tick (a flush that lets go of
			// the lock half-way) is the interesting place: always stay behind there
			if st.exclInTick >= 2 || (w.exclWants*0x9e3779b97f4a7c15)>>61 == 0 {
				if st.exclInTick >= 2 {
					w.count("flusher_preempted_between_two_exclusive_sections")
				}
				st.parked, st.lazy, st.preempted = true, true, true
				w.count("flusher_preempted_before_lock")
				st.yield.signal()
				st.resume.wait()
				st.preempted = false
			}
		}
		if st.readers > 0 || st.writer {
			if w.cur == st {
				st.parked = true
				st.yield.signal()
				st.resume.wait()
			} else {
				w.abort(w.Prop, "O-live", "exclusive lock requested while this task holds the lock: deadlock", map[string]string{"kind": "deadlock-excl-under-lock"})
				return
			}
		}
		st.writer = true
		st.writerIsFl = w.cur != nil
		if w.cur == nil {
			w.sessLocks++
		}
		st.inFlush = true
		w.inFlushLoop = true
		w.flushAcc = 0
		st.flushWrites = st.flushWrites[:0]
		st.flushBase = nil
		if w.wantFlushCapture(st) {
			st.flushBase = append([]byte(nil), st.shadow.data...)
		}
	case storage.VerifLockRelExcl:
		st.writer = false
		st.inFlush = false
		w.inFlushLoop = false
		if w.cur == nil {
			w.sessLocks--
		}
		w.yieldPoint()
	}
}

// settle runs a flusher whose wake-up was deferred (Knobs.LazyWake).
func (w *World) settle(st *storeState) {
	if st.lazy && st.parked && st.readers == 0 && !st.writer && w.cur == nil {
		st.lazy = false
		w.count("flusher_resumed_late")
		w.runFlusher(st)
	}
	st.lazy = false
}

// hookOpenFault: the armed open error (Stmt.OpenFail) fires once, at the
// first open of the named file inside the statement.
func (w *World) hookOpenFault(path string) error {
	if w.OpenFault == "" || !w.inStmt {
		return nil
	}
	base := filepath.Base(path)
	if (w.OpenFault == "log" && base == "wal") || (w.OpenFault == "data" && base != "wal") {
		w.OpenFault = ""
		w.count("open_error_injected")
		w.h(21, uint64(len(path)))
		return &os.PathError{Op: "open", Path: path, Err: syscall.EMFILE}
	}
	return nil
}

// checkOneFlusher: when a statement has returned, at most one store with a
// live flusher exists (the one the session holds). A second one - left by a
// USE that failed half-way - writes its own stale header over the file on
// its own timer, excluded by nothing from the statements on that file.
func (w *World) checkOneFlusher() {
	if w.Viol != nil || w.inRecovery {
		return
	}
	var live []*storeState
	for _, st := range w.stores {
		if st.auto && !st.exited && !st.killed {
			live = append(live, st)
		}
	}
	if len(live) <= 1 {
		return
	}
	held, stray := "", live[0]
	if w.Sess != nil && w.Sess.RelationService != nil {
		if st := w.byFS[w.Sess.RelationService.VerifStore()]; st != nil {
			held = st.db
			for _, l := range live {
				if l != st {
					stray = l
					break
				}
			}
		}
	}
	w.raise(w.Prop, "O-oneflusher", fmt.Sprintf("after a %s statement %d stores have a running flusher (session holds %q): a store nobody holds keeps writing its header to %s", w.stmtKind, len(live), held, stray.path),
		map[string]string{"stmt": w.stmtKind, "kind": "leaked-flusher"})
}

func (w *World) hookClose(fs *storage.VerifStore) {
	bumpProgress()
	st := w.byFS[fs]
	if st == nil {
		return
	}
	w.h(5, uint64(st.id))
	w.settle(st)
	if st.parked {
		w.abort(w.Prop, "O-live", "store closed while its flusher waits for a lock this task holds: deadlock", map[string]string{"kind": "deadlock-close"})
		return
	}
	st.exited = true
	w.count("store_closed")
}

func (w *World) holdsLock(st *storeState, excl bool) bool {
	if excl {
		return st.writer
	}
	return st.readers > 0 || st.writer
}

func (w *World) hookAccess(fs *storage.VerifStore, kind int, off uint64) {
	bumpProgress()
	st := w.byFS[fs]
	if st == nil {
		return
	}
	w.h(6, uint64(st.id), uint64(kind), off)
	if w.cur == nil {
		w.lastStore = st
	}
	change := kind == storage.VerifAccAppend || kind == storage.VerifAccIncrLastKey || kind == storage.VerifAccIncrLSN || kind == storage.VerifAccSetPageTableRoot
	if w.mon.Lock && st.auto && !w.inRecovery && !w.holdsLock(st, false) {
		w.raise("C13", "O-lock", fmt.Sprintf("store access kind %d at offset %d with no lock held (statement %s)", kind, off, w.stmtKind),
			map[string]string{"stmt": w.stmtKind, "access": accName(kind)})
	}
	if change && w.cur == nil && w.inStmt {
		w.changeAfterSuspect()
		w.stmtChanged = true
		w.noteChangeIn(st)
	}
	w.yieldPoint()
}

// changeAfterSuspect: the statement changes pages again after a flusher wrote
// to the data file in the middle of it (the statement had let go of the lock
// for a moment): the flush saw a half-made statement.
func (w *World) changeAfterSuspect() {
	if w.mon.Quiet && w.quietSuspect != "" && !w.inRecovery {
		w.raise("C13", "O-quiet", fmt.Sprintf("%s write to the data file by the flusher between two page changes of one %s statement", w.quietSuspect, w.stmtKind),
			map[string]string{"stmt": w.stmtKind, "what": w.quietSuspect, "when": "between-changes"})
		w.quietSuspect = ""
	}
}

func accName(k int) string {
	switch k {
	case storage.VerifAccFetch:
		return "fetch"
	case storage.VerifAccSetCache:
		return "setCache"
	case storage.VerifAccAppend:
		return "append"
	case storage.VerifAccIncrLastKey:
		return "incrLastKey"
	case storage.VerifAccIncrLSN:
		return "incrLSN"
	case storage.VerifAccSetPageTableRoot:
		return "setPageTableRoot"
	case storage.VerifAccReadHeader:
		return "readHeaderCounter"
	}
	return "?"
}

func (w *World) hookNodeMark(n *storage.VerifNode, dirty bool) {
	bumpProgress()
	w.h(7, n.VerifOffset(), b2u(dirty))
	if w.inPressure {
		return
	}
	if dirty {
		if w.cur == nil && w.inStmt {
			w.changeAfterSuspect()
			w.stmtChanged = true
			w.noteChangeIn(w.lastStore)
		}
		// (a node of a store that has no flusher needs no lock: CREATE DATABASE
		// builds the new catalog while another database's flusher is alive)
		if w.mon.Lock && !w.inRecovery && w.cur == nil && w.inStmt && w.sessLocks == 0 && w.anyAuto() && (w.lastStore == nil || w.lastStore.auto) {
			w.raise("C13", "O-lock", fmt.Sprintf("page %d marked dirty with no lock held (statement %s)", n.VerifOffset(), w.stmtKind),
				map[string]string{"stmt": w.stmtKind, "access": "markDirty"})
		}
		w.yieldPoint()
		return
	}
	// markClean: only a flush (exclusive lock) may do it
	if w.mon.Lock && !w.inRecovery {
		ok := false
		for _, st := range w.stores {
			if st.writer {
				ok = true
			}
		}
		if !ok && w.anyAuto() {
			w.raise("C13", "O-lock", fmt.Sprintf("page %d marked clean without the exclusive lock", n.VerifOffset()),
				map[string]string{"stmt": w.stmtKind, "access": "markClean"})
		}
	}
}

func (w *World) anyAuto() bool {
	for _, st := range w.stores {
		if st.auto && !st.killed {
			return true
		}
	}
	return false
}

func (w *World) hookPageWrite(fs *storage.VerifStore, n *storage.VerifNode, b []byte) {
	bumpProgress()
	st := w.byFS[fs]
	if st == nil {
		return
	}
	w.count("page_write")
	if w.isMain && w.Knobs.SlowWriteAt > 0 {
		w.pageWrites++
		if w.pageWrites == w.Knobs.SlowWriteAt {
			// a stalled disk: this one write takes 60 ms of REAL time. mkdb
			// has no clock seam but the ticker; code that does not read the wall
			// clock cannot tell, code that does (a time-boxed flush, say) can
			time.Sleep(60 * time.Millisecond)
			w.count("slow_page_write")
		}
	}
	off := n.VerifOffset()
	cp := append([]byte(nil), b...)
	st.shadow.writeAt(int(off), cp)
	st.flushWrites = append(st.flushWrites, pageWrite{off, cp})
	if w.mon.Lock && st.auto && !w.inRecovery && !st.writer {
		w.raise("C13", "O-lock", fmt.Sprintf("page %d written to the data file without the exclusive lock", off),
			map[string]string{"stmt": w.stmtKind, "access": "pageWrite"})
	}
	w.checkQuiet(st, "page")
	if w.mon.Page {
		w.checkPageWrite(st, n, cp)
	}
}

// checkQuiet: O-quiet. A data-file write by a flusher after the statement's
// first change is a violation at once if the statement still holds the store
// lock (the flush overlaps the changes), and otherwise as soon as the
// statement goes on to append to the log (pages reached the file before the
// log records that describe them). A flush after the statement released its
// lock for good (CREATE TABLE before its own flush, a refused statement on its
// way out) is a statement boundary and is fine.
func (w *World) noteChangeIn(st *storeState) {
	if st == nil {
		return
	}
	if w.stmtChangedIn == nil {
		w.stmtChangedIn = map[*storeState]bool{}
	}
	w.stmtChangedIn[st] = true
}

func (w *World) checkQuiet(st *storeState, what string) {
	if !w.mon.Quiet || w.inRecovery {
		return
	}
	if w.inStmt && w.stmtChanged && w.stmtChangedIn[st] && !w.stmtLogged && w.cur != nil && w.Sess != nil && w.Sess.RelationService != nil && w.Sess.RelationService.VerifStore() == st.fs {
		if st.readers > 0 {
			w.raise("C13", "O-quiet", fmt.Sprintf("%s write to the data file by the flusher while a %s statement that already changed pages still holds the store lock", what, w.stmtKind),
				map[string]string{"stmt": w.stmtKind, "what": what, "when": "lock-held"})
			return
		}
		if w.quietSuspect == "" {
			w.quietSuspect = what
		}
	}
}

func (w *World) hookHeaderWrite(fs *storage.VerifStore, b []byte) {
	bumpProgress()
	st := w.byFS[fs]
	if st == nil {
		return
	}
	w.count("header_write")
	if w.mon.Lock && st.auto && !w.inRecovery && !st.writer {
		// save() reads the header fields and writes offset 0: both need the exclusive lock
		w.raise("C13", "O-lock", "file header built and written to the data file without the exclusive lock",
			map[string]string{"stmt": w.stmtKind, "access": "headerWrite"})
	}
	w.h(9, uint64(st.id))
	w.Hash.addBytes(b)
	if st.inFlush && st.flushBase != nil {
		w.captureFlush(st, b)
	}
	st.shadow.writeAt(0, append([]byte(nil), b...))
	w.checkQuiet(st, "header")
	if st.inFlush {
		w.flushIdx++
	}
}

func (w *World) hookFlushLoopDone(fs *storage.VerifStore) {
	bumpProgress()
	st := w.byFS[fs]
	if st == nil {
		return
	}
	w.inFlushLoop = false
	w.Hash.add(w.flushAcc)
	sort.Slice(st.flushWrites, func(i, j int) bool { return st.flushWrites[i].off < st.flushWrites[j].off })
	keys := make([]uint64, 0, len(st.flushWrites))
	w.h(8, uint64(st.id), uint64(len(st.flushWrites)))
	for _, pw := range st.flushWrites {
		w.h(pw.off)
		w.Hash.addBytes(pw.b)
		keys = append(keys, pw.off)
	}
	if w.Knobs.LRUReverse {
		for i, j := 0, len(keys)-1; i < j; i, j = i+1, j-1 {
			keys[i], keys[j] = keys[j], keys[i]
		}
	}
	fs.VerifCache().VerifReorder(keys)
	if lm := w.lruShadow[fs.VerifCache()]; lm != nil {
		lm.reorder(keys)
	}
	w.count("flush")
	if len(st.flushWrites) > 0 {
		w.count("flush_nonempty")
	}
	if w.cur != nil {
		w.count("flush_by_timer")
	}
}

func (w *World) hookPageRead(fs *storage.VerifStore, off uint64, b []byte, n *storage.VerifNode) {
	bumpProgress()
	st := w.byFS[fs]
	if st == nil {
		return
	}
	w.count("cold_read")
	w.h(10, uint64(st.id), off)
	if w.mon.Page {
		w.checkPageRead(st, off, b, n)
	}
}

func (w *World) hookWalOpened(f any, db string) {
	bumpProgress()
	path := filepath.Join("data", strings.ToLower(db), "wal")
	w.wals[f] = &walHandle{db: strings.ToLower(db), path: path, shadow: w.shadowFor(path)}
}

// hookWalIO: the hook lines in wal.flush. They mark the crash points (before
// each write / fsync) and the end of the statement's log append. The contents
// of the log and what has been fsynced are NOT taken from them but from the
// calls that really reach the file (hookWalFileOp).
func (w *World) hookWalIO(f any, kind int, b []byte) {
	bumpProgress()
	h := w.wals[f]
	if h == nil {
		return
	}
	w.h(11, uint64(kind))
	w.Hash.addBytes(b)
	switch kind {
	case storage.VerifWalWriteLen, storage.VerifWalWriteBody:
		if w.quietSuspect != "" && w.cur == nil && w.inStmt {
			w.raise("C13", "O-quiet", fmt.Sprintf("%s write to the data file by the flusher between a %s statement's first change and the completion of its log append", w.quietSuspect, w.stmtKind),
				map[string]string{"stmt": w.stmtKind, "what": w.quietSuspect, "when": "before-log"})
			w.quietSuspect = ""
		}
		w.captureWal(h, kind, b)
		w.walEvIdx++
		w.count("wal_write")
		w.yieldPoint()
	case storage.VerifWalSync:
		w.captureWal(h, kind, nil)
		w.walEvIdx++
		w.count("wal_sync")
		w.yieldPoint()
	case storage.VerifWalFlushDone:
		w.stmtLogged = true
		if len(h.shadow.data) > 3<<20 && !w.longLogSeen {
			w.longLogSeen = true
			w.count("probe_log_over_3MB")
		}
		if w.mon.Durable && w.cur == nil && w.inStmt && h.shadow.synced != len(h.shadow.data) {
			w.raise(w.Prop, "O-durable", fmt.Sprintf("a %s statement finished its log append with %d of %d log bytes not covered by an fsync: a crash now loses acknowledged work", w.stmtKind, len(h.shadow.data)-h.shadow.synced, len(h.shadow.data)),
				map[string]string{"how": "unsynced-log", "stmt": w.stmtKind})
		}
	}
}

// hookWalFileOp: calls that really reach a log file handle.
func (w *World) hookWalFileOp(f any, op string, b []byte, size int64) {
	bumpProgress()
	h := w.wals[f]
	if h == nil {
		return
	}
	switch op {
	case "write":
		h.shadow.data = append(h.shadow.data, b...)
		w.count("wal_file_write")
	case "synced":
		h.shadow.synced = len(h.shadow.data)
		w.count("wal_file_sync")
	case "truncated":
		if int(size) < len(h.shadow.data) {
			h.shadow.data = h.shadow.data[:size]
			w.count("wal_torn_tail_truncated")
		}
		if h.shadow.synced > len(h.shadow.data) {
			h.shadow.synced = len(h.shadow.data)
		}
	}
}

func (w *World) hookWalTruncate(f any, size int64) {
	if h := w.wals[f]; h != nil {
		w.h(14, uint64(size))
	}
}

func (w *World) hookReplay(fs *storage.VerifStore, op uint8, lsn, pg uint64, cell uint32, redo bool) {
	bumpProgress()
	w.h(12, uint64(op), lsn, pg, uint64(cell), b2u(redo))
	names := []string{"insert", "update", "delete"}
	nm := "?"
	if int(op) < len(names) {
		nm = names[op]
	}
	if redo {
		w.count("replay_redo_" + nm)
		w.count("replay_redo")
	} else {
		w.count("replay_skip_" + nm)
		w.count("replay_skip")
	}
}

// ---- session-side operations ----

// BiasHeader raises the row-id and LSN counters in the header of a database
// that was just created and is not open (file and shadow alike).
func (w *World) BiasHeader(db string, key uint32, lsn uint64, off uint64) error {
	path := filepath.Join("data", strings.ToLower(db), "tbl")
	sh := w.files[path]
	if sh == nil || len(sh.data) < 28 {
		return fmt.Errorf("harness: no header to bias for %s", db)
	}
	hdr := append([]byte(nil), sh.data[:28]...)
	if key > 0 {
		cur := uint32(hdr[0]) | uint32(hdr[1])<<8 | uint32(hdr[2])<<16 | uint32(hdr[3])<<24
		if key > cur {
			hdr[0], hdr[1], hdr[2], hdr[3] = byte(key), byte(key>>8), byte(key>>16), byte(key>>24)
		}
	}
	if lsn > 0 {
		for i := 0; i < 8; i++ {
			hdr[20+i] = byte(lsn >> (8 * uint(i)))
		}
	}
	if off > 0 {
		var cur uint64
		for i := 0; i < 8; i++ {
			cur |= uint64(hdr[12+i]) << (8 * uint(i))
		}
		if off > cur {
			for i := 0; i < 8; i++ {
				hdr[12+i] = byte(off >> (8 * uint(i)))
			}
		}
	}
	f, err := os.OpenFile(path, os.O_WRONLY, 0644)
	if err != nil {
		return err
	}
	defer f.Close()
	if _, err := f.WriteAt(hdr, 0); err != nil {
		return err
	}
	copy(sh.data, hdr)
	w.count("header_biased")
	return nil
}

// BeginStmt / EndStmt bracket one statement of the timeline.
func (w *World) BeginStmt(idx int, kind string, dirs []Directive) {
	w.stmtIdx = idx
	w.stmtKind = kind
	w.inStmt = true
	w.evIdx = 0
	w.walEvIdx = 0
	w.directives = dirs
	w.stmtChanged = false
	w.stmtChangedIn = nil
	w.stmtLogged = false
	w.stmtRecOps = w.stmtRecOps[:0]
	w.quietSuspect = ""
}

func (w *World) EndStmt() {
	w.inStmt = false
	w.directives = nil
	w.OpenFault = ""
	w.checkOneFlusher()
}

// SessionLocks is the number of store locks the session task holds.
func (w *World) SessionLocks() int { return w.sessLocks }

// Dirty returns the number of dirty pages and entries in the current store's cache.
func (w *World) Dirty() (dirty, entries, capacity int) {
	if w.Sess == nil || w.Sess.RelationService == nil {
		return 0, 0, 0
	}
	c := w.Sess.RelationService.VerifStore().VerifCache()
	for _, e := range c.VerifEntries() {
		entries++
		if e.Dirty {
			dirty++
		}
	}
	return dirty, entries, c.VerifCap()
}

// CheckShadows compares every shadow file with the real file (instrumentation census).
func (w *World) CheckShadows() error {
	for p, s := range w.files {
		b, err := os.ReadFile(p)
		if err != nil {
			return fmt.Errorf("census: %s: %v", p, err)
		}
		if string(b) != string(s.data) {
			return fmt.Errorf("census: shadow of %s differs from the file (len %d vs %d): a write bypassed the hooks", p, len(s.data), len(b))
		}
	}
	return nil
}

// SnapshotFiles copies all shadow files (crash image at this instant; log cut
// at its last write).
func (w *World) SnapshotFiles() map[string][]byte {
	out := map[string][]byte{}
	for p, s := range w.files {
		out[p] = append([]byte(nil), s.data...)
	}
	// whatever else the engine keeps under data/ (a file the write hooks know
	// nothing of - a marker, a side file) belongs to the image as it is on disk
	filepath.Walk("data", func(p string, info os.FileInfo, err error) error {
		if err != nil || info.IsDir() {
			return nil
		}
		p = filepath.ToSlash(p)
		if _, tracked := out[p]; tracked {
			return nil
		}
		if b, err := os.ReadFile(p); err == nil {
			out[p] = b
			w.count("image_untracked_file")
		}
		return nil
	})
	return out
}
