package core

import (
	"fmt"
	"math"
	"strings"
	"unicode/utf8"
)

// Reference model: a plain in-memory account of what every table of every
// database must contain. It does not predict row ids (see DESIGN section 5).

type MRow struct {
	ID   uint32 // 0 = not observed yet
	Vals []Val
}

type MTable struct {
	Name string
	Cols []Col
	Rows []*MRow
}

type MDB struct {
	Name   string // lower case
	Tables []*MTable
	MaxID  uint32 // largest row id ever observed after an acknowledged statement
}

type Model struct {
	// Ghosts: directories under data/ that are no databases (left by a process
	// that died right after the mkdir of CREATE DATABASE): listed by SHOW
	// DATABASES, not selectable, and CREATE DATABASE of that name succeeds
	Ghosts []string
	DBs    map[string]*MDB
	Order  []string // creation order (lower-case names)
	Cur    string   // selected database ("" = none)
}

func NewModel() *Model { return &Model{DBs: map[string]*MDB{}} }

// invalidDBName: a database name is one path element; anything that is a path
// (written as a quoted identifier) names no database and can create none.
func invalidDBName(n string) bool {
	n = rawName(strings.Trim(n, "\""))
	return n == "" || n == "." || n == ".." || strings.ContainsAny(n, "/\\\x00") || !utf8.ValidString(n)
}

func (m *Model) Clone() *Model {
	c := &Model{DBs: map[string]*MDB{}, Order: append([]string(nil), m.Order...), Cur: m.Cur, Ghosts: append([]string(nil), m.Ghosts...)}
	for k, d := range m.DBs {
		nd := &MDB{Name: d.Name, MaxID: d.MaxID}
		for _, t := range d.Tables {
			nt := &MTable{Name: t.Name, Cols: append([]Col(nil), t.Cols...)}
			// the value slice of a row is never changed in place (an update puts a
			// new slice there), so clones share it; the row header is copied
			// because observed row ids are filled in per model
			nt.Rows = make([]*MRow, len(t.Rows))
			hdr := make([]MRow, len(t.Rows))
			for i, r := range t.Rows {
				hdr[i] = MRow{ID: r.ID, Vals: r.Vals}
				nt.Rows[i] = &hdr[i]
			}
			nd.Tables = append(nd.Tables, nt)
		}
		c.DBs[k] = nd
	}
	return c
}

func (m *Model) CurDB() *MDB {
	if m.Cur == "" {
		return nil
	}
	return m.DBs[m.Cur]
}

func (d *MDB) Table(name string) *MTable {
	for _, t := range d.Tables {
		if t.Name == name {
			return t
		}
	}
	return nil
}

func (t *MTable) ColIdx(name string) int {
	for i, c := range t.Cols {
		if c.Name == name {
			return i
		}
	}
	return -1
}

// Error classes (substrings of the engine's error text).
const (
	ETableNotExist = "table does not exist"
	EColCount      = "value list count does not match column list count"
	ETypeMismatch  = "types do not match"
	EIntRange      = "integer value out of range"
	ERowTooLarge   = "row exceeds 400 bytes"
	ETableExists   = "table already exists"
	EDBExists      = "database already exists"
	EDBNotExist    = "database does not exist"
	ENoDB          = "please select a database"
	EFieldNotFound = "field not found"
	EOpenFiles     = "too many open files"
	EColRepeated   = "more than once"
)

func dupName(names []string) bool {
	seen := map[string]bool{}
	for _, n := range names {
		if seen[n] {
			return true
		}
		seen[n] = true
	}
	return false
}

func colNamesOf(cols []Col) []string {
	out := make([]string, len(cols))
	for i, c := range cols {
		out[i] = c.Name
	}
	return out
}

// MaxRowBytes is the row size limit the properties state (C08).
const MaxRowBytes = 400

// EncSize is the encoded size of a row: one marker byte per column plus
// INT 4, BIGINT 8, BOOLEAN 1, VARCHAR 4+len for non-NULL values.
func EncSize(cols []Col, vals []Val) int {
	n := 0
	for i, c := range cols {
		n++
		if vals[i].IsNull() {
			continue
		}
		switch c.Type {
		case TInt:
			n += 4
		case TBigInt:
			n += 8
		case TBool:
			n++
		case TVarchar:
			n += 4 + len(vals[i].S)
		}
	}
	return n
}

// rowErrors returns the error classes that apply to a full row of the table.
func rowErrors(cols []Col, vals []Val) []string {
	var errs []string
	add := func(e string) {
		for _, x := range errs {
			if x == e {
				return
			}
		}
		errs = append(errs, e)
	}
	typeOK := true
	for i, c := range cols {
		v := vals[i]
		if v.IsNull() {
			continue
		}
		switch c.Type {
		case TInt:
			if v.K != "i" {
				add(ETypeMismatch)
				typeOK = false
			} else if v.I > math.MaxInt32 || v.I < math.MinInt32 {
				add(EIntRange)
				typeOK = false
			}
		case TBigInt:
			if v.K != "i" {
				add(ETypeMismatch)
				typeOK = false
			}
		case TVarchar:
			if v.K != "s" {
				add(ETypeMismatch)
				typeOK = false
			}
		case TBool:
			if v.K != "b" {
				add(ETypeMismatch)
				typeOK = false
			}
		}
	}
	if typeOK && EncSize(cols, vals) > MaxRowBytes {
		add(ERowTooLarge)
	}
	return errs
}

// Expect is the model's prediction for one statement.
type Expect struct {
	OK     bool
	ErrAny []string // admissible error classes when !OK
	// NOps: number of row operations the statement performs (for prefix states)
	NOps int
	// FailAt: for failing multi-row statements, index of the first failing row op (-1 otherwise)
	FailAt int
	// apply applies the first n row operations (n<0: the whole statement) to m.
	apply func(m *Model, n int)
	// Rows: expected result of KSelect
	Rows []*MRow
	// Unchecked: the model has no opinion on the outcome (rawsql)
	Unchecked bool
	// Vague: the model has no opinion on this UPDATE / DELETE (its WHERE orders
	// a NULL against a number: an error in the engine as it is, not in one
	// that stops evaluating an AND early); handled like a raw statement -
	// refused: nothing may change, accepted: the observed contents are adopted
	Vague bool
	// Either: refusal and success are both right (the statement changes
	// nothing either way); contents are still compared
	Either bool
}

func (e *Expect) Apply(m *Model) {
	if e.apply != nil {
		e.apply(m, -1)
	}
}
func (e *Expect) ApplyPrefix(m *Model, n int) {
	if e.apply != nil {
		e.apply(m, n)
	}
}

func fail(classes ...string) *Expect { return &Expect{OK: false, ErrAny: classes, FailAt: -1} }

func evalCmp(c Cmp, v Val) bool {
	// only integer comparisons on non-NULL values are generated
	if v.K != "i" || c.V.K != "i" {
		switch c.Op {
		case "=":
			return v.Equal(c.V)
		case "!=":
			return !v.Equal(c.V)
		}
		return false
	}
	switch c.Op {
	case "=":
		return v.I == c.V.I
	case "!=":
		return v.I != c.V.I
	case "<":
		return v.I < c.V.I
	case "<=":
		return v.I <= c.V.I
	case ">":
		return v.I > c.V.I
	case ">=":
		return v.I >= c.V.I
	}
	return false
}

func (t *MTable) match(w *Cond, r *MRow) bool {
	if w == nil || len(w.Cmps) == 0 {
		return true
	}
	res := w.Op != "or"
	for _, c := range w.Cmps {
		idx := t.ColIdx(c.Col)
		b := idx >= 0 && evalCmp(c, r.Vals[idx])
		if w.Op == "or" {
			res = res || b
		} else {
			res = res && b
		}
	}
	return res
}

// condVague: some row holds a non-integer (NULL) in a column that the
// condition compares with < <= > >=.
func condVague(t *MTable, w *Cond) bool {
	if w == nil {
		return false
	}
	for _, c := range w.Cmps {
		if c.Op == "=" || c.Op == "!=" {
			continue
		}
		idx := t.ColIdx(c.Col)
		if idx < 0 {
			continue
		}
		for _, r := range t.Rows {
			if r.Vals[idx].K != "i" {
				return true
			}
		}
	}
	return false
}

func condColsKnown(t *MTable, w *Cond) bool {
	if w == nil {
		return true
	}
	for _, c := range w.Cmps {
		if t.ColIdx(c.Col) < 0 {
			return false
		}
	}
	return true
}

// Predict returns what the statement must do in the current state.
func (m *Model) Predict(s *Stmt) *Expect {
	switch s.Kind {
	case KCreateDB:
		if invalidDBName(s.DB) {
			return fail(EDBNotExist, "invalid")
		}
		name := strings.ToLower(s.DB)
		if _, ok := m.DBs[name]; ok {
			return fail(EDBExists)
		}
		return &Expect{OK: true, FailAt: -1, apply: func(m *Model, n int) {
			m.DBs[name] = &MDB{Name: name}
			m.Order = append(m.Order, name)
			for i, g := range m.Ghosts {
				if g == name {
					m.Ghosts = append(m.Ghosts[:i:i], m.Ghosts[i+1:]...)
					break
				}
			}
		}}
	case KUse:
		if invalidDBName(s.DB) {
			return fail(EDBNotExist, "invalid")
		}
		name := strings.ToLower(s.DB)
		if _, ok := m.DBs[name]; !ok {
			return fail(EDBNotExist)
		}
		if s.OpenFail != "" && name != m.Cur {
			// the open of the data or log file fails: an error, the selection stays
			return fail(EOpenFiles)
		}
		return &Expect{OK: true, FailAt: -1, apply: func(m *Model, n int) { m.Cur = name }}
	case KShowDB, KRestart:
		return &Expect{OK: true, FailAt: -1}
	case KRawSQL:
		return &Expect{Unchecked: true, FailAt: -1}
	}
	db := m.CurDB()
	if db == nil {
		return fail(ENoDB)
	}
	dbName := db.Name
	switch s.Kind {
	case KCreate:
		if db.Table(s.Table) != nil || s.Table == "sys_pages" || s.Table == "sys_schema" {
			return fail(ETableExists)
		}
		// the catalog rows of the new table obey the row limit like any other row:
		// sys_pages(table_name, file_offset) and one sys_schema(table_name,
		// field_name, field_type, field_length) row per column
		if 1+4+len(s.Table)+1+8 > MaxRowBytes {
			return fail(ERowTooLarge)
		}
		// a row is a map from column name to value: a table with a column named
		// twice cannot hold two values there (C08) - such a definition is refused
		if dupName(colNamesOf(s.Cols)) {
			return fail(EColRepeated)
		}
		for _, c := range s.Cols {
			if 1+4+len(s.Table)+1+4+len(c.Name)+1+4+1+4 > MaxRowBytes {
				return fail(ERowTooLarge)
			}
			// field_length is an INT column of sys_schema
			if c.Len > 2147483647 || c.Len < -2147483648 {
				return fail(EIntRange)
			}
		}
		cols := append([]Col(nil), s.Cols...)
		name := s.Table
		return &Expect{OK: true, FailAt: -1, apply: func(m *Model, n int) {
			d := m.DBs[dbName]
			d.Tables = append(d.Tables, &MTable{Name: name, Cols: cols})
		}}
	case KSelect:
		t := db.Table(s.Table)
		if t == nil {
			return fail(ETableNotExist)
		}
		return &Expect{OK: true, FailAt: -1, Rows: t.Rows}
	case KInsert:
		t := db.Table(s.Table)
		if t == nil {
			return fail(ETableNotExist)
		}
		names := s.ColNames
		if len(names) == 0 {
			for _, c := range t.Cols {
				names = append(names, c.Name)
			}
		}
		// every named column must exist (exact spelling) and be named once: a
		// value given for an unknown or a repeated name would be accepted and
		// never returned (C08)
		for _, nm := range names {
			if t.ColIdx(nm) < 0 {
				return fail(EFieldNotFound)
			}
		}
		if dupName(names) {
			return fail(EColRepeated)
		}
		var full [][]Val
		tname0 := s.Table
		partial := func(e *Expect, k int) *Expect {
			// a statement failing at row k applied rows 0..k-1 and then took them
			// back last-first: while it is being logged, the admissible states are
			// the prefixes of those rows (C03); once it returned, nothing (C14)
			e.FailAt = k
			e.NOps = k
			rows := append([][]Val(nil), full...)
			e.apply = func(m *Model, n int) {
				t := m.DBs[dbName].Table(tname0)
				for i, vals := range rows {
					if n >= 0 && i >= n {
						break
					}
					t.Rows = append(t.Rows, &MRow{Vals: append([]Val(nil), vals...)})
				}
			}
			return e
		}
		for k, row := range s.Rows {
			if len(row) != len(names) {
				return partial(fail(EColCount), k)
			}
			vals := make([]Val, len(t.Cols))
			for i := range vals {
				vals[i] = Null()
			}
			for i, nm := range names {
				idx := t.ColIdx(nm)
				if idx < 0 {
					// unknown column names are not generated; the engine ignores them
					continue
				}
				vals[idx] = row[i]
			}
			if errs := rowErrors(t.Cols, vals); len(errs) > 0 {
				return partial(fail(errs...), k)
			}
			full = append(full, vals)
		}
		tname := s.Table
		return &Expect{OK: true, FailAt: -1, NOps: len(full), apply: func(m *Model, n int) {
			t := m.DBs[dbName].Table(tname)
			for i, vals := range full {
				if n >= 0 && i >= n {
					break
				}
				t.Rows = append(t.Rows, &MRow{Vals: append([]Val(nil), vals...)})
			}
		}}
	case KUpdate:
		t := db.Table(s.Table)
		if t == nil {
			return fail(ETableNotExist)
		}
		if !condColsKnown(t, s.Where) {
			return fail(EFieldNotFound)
		}
		if condVague(t, s.Where) {
			return &Expect{Vague: true, Unchecked: true, FailAt: -1}
		}
		// a SET list naming an unknown column or one column twice: the value
		// could not be stored, so the statement is refused (C08) - unless no
		// row matches, in which case no value is lost and both outcomes are right
		var setNames []string
		badSet := ""
		for _, si := range s.Set {
			if t.ColIdx(si.Col) < 0 {
				badSet = EFieldNotFound
			}
			setNames = append(setNames, si.Col)
		}
		if badSet == "" && dupName(setNames) {
			badSet = EColRepeated
		}
		if badSet != "" {
			for _, r := range t.Rows {
				if t.match(s.Where, r) {
					return fail(badSet)
				}
			}
			e := fail(badSet)
			e.Either = true
			return e
		}
		type upd struct {
			pos  int
			vals []Val
		}
		var ups []upd
		for pos, r := range t.Rows {
			if !t.match(s.Where, r) {
				continue
			}
			vals := append([]Val(nil), r.Vals...)
			for _, si := range s.Set {
				if idx := t.ColIdx(si.Col); idx >= 0 {
					vals[idx] = si.V
				}
			}
			if errs := rowErrors(t.Cols, vals); len(errs) > 0 {
				e := fail(errs...)
				e.FailAt = len(ups)
				e.NOps = len(ups)
				done := append([]upd(nil), ups...)
				tn := s.Table
				e.apply = func(m *Model, n int) {
					t := m.DBs[dbName].Table(tn)
					for i, u := range done {
						if n >= 0 && i >= n {
							break
						}
						t.Rows[u.pos].Vals = append([]Val(nil), u.vals...)
					}
				}
				return e
			}
			ups = append(ups, upd{pos, vals})
		}
		tname := s.Table
		return &Expect{OK: true, FailAt: -1, NOps: len(ups), apply: func(m *Model, n int) {
			t := m.DBs[dbName].Table(tname)
			for i, u := range ups {
				if n >= 0 && i >= n {
					break
				}
				t.Rows[u.pos].Vals = append([]Val(nil), u.vals...)
			}
		}}
	case KDelete:
		t := db.Table(s.Table)
		if t == nil {
			return fail(ETableNotExist)
		}
		if !condColsKnown(t, s.Where) {
			return fail(EFieldNotFound)
		}
		if condVague(t, s.Where) {
			return &Expect{Vague: true, Unchecked: true, FailAt: -1}
		}
		var dels []int
		for pos, r := range t.Rows {
			if t.match(s.Where, r) {
				dels = append(dels, pos)
			}
		}
		tname := s.Table
		return &Expect{OK: true, FailAt: -1, NOps: len(dels), apply: func(m *Model, n int) {
			t := m.DBs[dbName].Table(tname)
			gone := map[int]bool{}
			for i, p := range dels {
				if n >= 0 && i >= n {
					break
				}
				gone[p] = true
			}
			var keep []*MRow
			for p, r := range t.Rows {
				if !gone[p] {
					keep = append(keep, r)
				}
			}
			t.Rows = keep
		}}
	}
	return &Expect{Unchecked: true, FailAt: -1}
}

// Fingerprint of the logical contents (ids excluded) — used to compare
// admissible states.
func (m *Model) ContentsKey() string {
	var sb strings.Builder
	for _, dn := range m.Order {
		d := m.DBs[dn]
		sb.WriteString("db " + dn + "\n")
		for _, t := range d.Tables {
			sb.WriteString(" t " + t.Name)
			for _, c := range t.Cols {
				sb.WriteString(fmt.Sprintf(" %s:%d", c.Name, c.Type))
			}
			sb.WriteString("\n")
			for _, r := range t.Rows {
				sb.WriteString("  ")
				for _, v := range r.Vals {
					sb.WriteString(v.String() + ",")
				}
				sb.WriteString("\n")
			}
		}
	}
	return sb.String()
}
