//go:build verifrace

package core

import (
	"syscall"
	"time"
	"unsafe"
)

// Race-detector build. The simulator still runs one goroutine at a time, but
// the hand-over must not look like synchronisation to the race detector:
// channels, mutexes, atomics and the annotated syscall.Read/Write all create
// happens-before edges, and since every switch between the session and a
// flusher passes through the baton, those edges would order every pair of
// accesses and hide every race. A pipe driven by raw system calls hands the
// baton over without telling the detector. What remains ordered is what mkdb
// itself orders (its RWMutex, its ticker and done channels): two accesses that
// only the simulator's schedule kept apart are reported, whatever the schedule
// was. The simulator's own bookkeeping races too, by design; reports are kept
// only if both stacks end in mkdb code.
type gate struct{ r, w int }

func newGate() *gate {
	var p [2]int
	if err := syscall.Pipe(p[:]); err != nil {
		panic("harness: pipe: " + err.Error())
	}
	return &gate{p[0], p[1]}
}

func (g *gate) signal() {
	b := [1]byte{1}
	for {
		n, _, e := syscall.Syscall(syscall.SYS_WRITE, uintptr(g.w), uintptr(unsafe.Pointer(&b[0])), 1)
		if n == 1 {
			return
		}
		if e != 0 && e != syscall.EINTR && e != syscall.EAGAIN {
			panic("harness: gate write: " + e.Error())
		}
	}
}

func (g *gate) wait() {
	var b [1]byte
	for {
		n, _, e := syscall.Syscall(syscall.SYS_READ, uintptr(g.r), uintptr(unsafe.Pointer(&b[0])), 1)
		if n == 1 {
			return
		}
		if e != 0 && e != syscall.EINTR && e != syscall.EAGAIN {
			panic("harness: gate read: " + e.Error())
		}
	}
}

func (g *gate) closeGate() {
	syscall.Close(g.r)
	syscall.Close(g.w)
}

const RaceMode = true

// plain, racy on purpose: an atomic would synchronise the two goroutines at every hook
func bumpProgress()       { Progress++ }
func ReadProgress() int64 { return Progress }

// The tick reaches the flusher through its ticker channel, as in the real
// program, where the sender is the runtime's timer and not the session: a
// feeder goroutine per store does the sending, woken through a gate.
func (st *storeState) startFeeder() {
	st.feed = newGate()
	go func() {
		for {
			st.feed.wait()
			if st.feedStop {
				st.feed.closeGate()
				return
			}
			st.tick <- time.Time{}
		}
	}()
}

func (st *storeState) feedTick() { st.feed.signal() }

func (st *storeState) stopFeeder() {
	if st.feed != nil && !st.feedStop {
		st.feedStop = true
		st.feed.signal()
	}
}
