package core

import (
	"fmt"
	"strings"
	"unicode/utf8"

	"github.com/mk6i/mkdb/engine"
	"github.com/mk6i/mkdb/sql"
	"github.com/mk6i/mkdb/storage"
)

// Rendering of statements as SQL text, and as sql.* structs for the direct
// route (values the text scanner cannot express: negative ints, NULL, any bytes).

var typeNames = map[int]string{TInt: "INT", TVarchar: "VARCHAR", TBool: "BOOLEAN", TBigInt: "BIGINT"}

func valSQL(v Val, style ...int) (string, bool) {
	switch v.K {
	case "i":
		if v.I < 0 {
			return "", false
		}
		if len(style) > 0 {
			switch style[0] {
			case 1:
				return "0" + fmt.Sprint(v.I), true
			case 2:
				return "000" + fmt.Sprint(v.I), true
			}
		}
		return fmt.Sprint(v.I), true
	case "s":
		// the scanner passes any valid UTF-8 through a quoted literal except a
		// quote, a backslash (escapes the closing quote) and a line break
		if !utf8.Valid(v.S) {
			return "", false
		}
		for _, b := range v.S {
			if b == '\'' || b == '\\' || b == '\n' || b == '\r' || b == 0 {
				return "", false
			}
		}
		return "'" + string(v.S) + "'", true
	case "b":
		if v.B {
			return "TRUE", true
		}
		return "FALSE", true
	}
	return "", false
}

func condSQL(w *Cond) (string, bool) {
	if w == nil || len(w.Cmps) == 0 {
		return "", true
	}
	var parts []string
	for _, c := range w.Cmps {
		vs, ok := valSQL(c.V)
		if !ok {
			return "", false
		}
		parts = append(parts, fmt.Sprintf("%s %s %s", c.Col, c.Op, vs))
	}
	j := " AND "
	if w.Op == "or" {
		j = " OR "
	}
	return " WHERE " + strings.Join(parts, j), true
}

// rawName: plans are stored as JSON, which cannot carry bytes that are not
// UTF-8; three private-use runes stand for such bytes in database names.
func rawName(n string) string {
	return strings.NewReplacer("\ue0ff", "\xff", "\ue0fe", "\xfe", "\ue0c3", "\xc3").Replace(n)
}

// SQLText renders the statement; ok=false when it cannot be expressed as text.
func (s *Stmt) SQLText() (string, bool) {
	switch s.Kind {
	case KCreateDB:
		return "CREATE DATABASE " + rawName(s.DB), true
	case KUse:
		return "USE " + rawName(s.DB), true
	case KShowDB:
		return "SHOW DATABASES", true
	case KRawSQL:
		return s.SQL, true
	case KCreate:
		var cs []string
		for _, c := range s.Cols {
			d := c.Name + " " + typeNames[c.Type]
			if c.Type == TVarchar {
				d += fmt.Sprintf("(%d)", c.Len)
			}
			cs = append(cs, d)
		}
		return fmt.Sprintf("CREATE TABLE %s (%s)", s.Table, strings.Join(cs, ", ")), true
	case KSelect:
		return "SELECT * FROM " + s.Table, true
	case KInsert:
		var sb strings.Builder
		sb.WriteString("INSERT INTO " + s.Table)
		if len(s.ColNames) > 0 {
			sb.WriteString(" (" + strings.Join(s.ColNames, ", ") + ")")
		}
		sb.WriteString(" VALUES ")
		for i, r := range s.Rows {
			if i > 0 {
				sb.WriteString(", ")
			}
			var vs []string
			for _, v := range r {
				x, ok := valSQL(v, s.LitStyle)
				if !ok {
					return "", false
				}
				vs = append(vs, x)
			}
			if len(vs) == 0 {
				return "", false
			}
			sb.WriteString("(" + strings.Join(vs, ", ") + ")")
		}
		return sb.String(), true
	case KUpdate:
		var sets []string
		for _, si := range s.Set {
			x, ok := valSQL(si.V, s.LitStyle)
			if !ok {
				return "", false
			}
			sets = append(sets, si.Col+" = "+x)
		}
		w, ok := condSQL(s.Where)
		if !ok {
			return "", false
		}
		return fmt.Sprintf("UPDATE %s SET %s%s", s.Table, strings.Join(sets, ", "), w), true
	case KDelete:
		w, ok := condSQL(s.Where)
		if !ok {
			return "", false
		}
		return "DELETE FROM " + s.Table + w, true
	}
	return "", false
}

var cmpOps = map[string]sql.TokenType{"=": sql.EQ, "!=": sql.NEQ, "<": sql.LT, "<=": sql.LTE, ">": sql.GT, ">=": sql.GTE}

func condAST(w *Cond) interface{} {
	if w == nil || len(w.Cmps) == 0 {
		return nil
	}
	pred := func(c Cmp) sql.Predicate {
		return sql.Predicate{ComparisonPredicate: sql.ComparisonPredicate{
			LHS: sql.ColumnReference{ColumnName: c.Col}, CompOp: cmpOps[c.Op], RHS: c.V.Go()}}
	}
	// same shapes the parser builds: right-nested BooleanTerm / SearchCondition
	var build func(i int) interface{}
	build = func(i int) interface{} {
		if i == len(w.Cmps)-1 {
			return pred(w.Cmps[i])
		}
		if w.Op == "or" {
			return sql.SearchCondition{LHS: pred(w.Cmps[i]), RHS: build(i + 1)}
		}
		return sql.BooleanTerm{LHS: pred(w.Cmps[i]), RHS: build(i + 1)}
	}
	return sql.WhereClause{SearchCondition: build(0)}
}

func selectStarAST(table string) sql.Select {
	return sql.Select{
		SelectList: sql.SelectList{{ValueExpressionPrimary: sql.Asterisk{}}},
		TableExpression: sql.TableExpression{
			FromClause: sql.FromClause{sql.TableName{Name: table}},
		},
	}
}

// ExecResult is what one statement returned.
type ExecResult struct {
	Err      error
	Panic    string // non-empty if the statement panicked
	PanicLoc string
	Rows     []*storage.Row // KSelect only
	Fields   []*storage.Field
}

// execStruct runs a statement through engine.Evaluate* (direct route).
func execStruct(sess *engine.Session, s *Stmt) (res ExecResult) {
	rs := sess.RelationService
	switch s.Kind {
	case KCreate:
		q := sql.CreateTable{Name: s.Table}
		for _, c := range s.Cols {
			var dt interface{}
			switch c.Type {
			case TInt:
				dt = sql.NumericType{}
			case TBigInt:
				dt = sql.BigIntType{}
			case TBool:
				dt = sql.BooleanType{}
			case TVarchar:
				dt = sql.CharacterStringType{Len: c.Len, Type: sql.T_VARCHAR}
			}
			q.Elements = append(q.Elements, sql.TableElement{ColumnDefinition: sql.ColumnDefinition{Name: c.Name, DataType: dt}})
		}
		res.Err = engine.EvaluateCreateTable(q, rs)
	case KSelect:
		res.Rows, res.Fields, res.Err = engine.EvaluateSelect(selectStarAST(s.Table), rs)
	case KInsert:
		q := sql.InsertStatement{TableName: s.Table}
		q.InsertColumnsAndSource.InsertColumnList.ColumnNames = append([]string(nil), s.ColNames...)
		var tvc sql.TableValueConstructor
		for _, r := range s.Rows {
			var rvc sql.RowValueConstructor
			for _, v := range r {
				rvc.RowValueConstructorList = append(rvc.RowValueConstructorList, v.Go())
			}
			tvc.TableValueConstructorList = append(tvc.TableValueConstructorList, rvc)
		}
		q.QueryExpression = tvc
		_, res.Err = engine.EvaluateInsert(q, rs)
	case KUpdate:
		q := sql.UpdateStatementSearched{TableName: s.Table, Where: condAST(s.Where)}
		for _, si := range s.Set {
			q.Set = append(q.Set, sql.SetClause{ObjectColumn: si.Col, UpdateSource: si.V.Go()})
		}
		res.Err = engine.EvaluateUpdate(q, rs)
	case KDelete:
		q := sql.DeleteStatementSearched{TableName: s.Table, WhereClause: condAST(s.Where)}
		_, res.Err = engine.EvaluateDelete(q, rs)
	default:
		res.Err = fmt.Errorf("harness: no struct route for %s", s.Kind)
	}
	return res
}

// parseSelect parses text the way engine.parseSQL does and reports whether it is a SELECT.
func parseSelect(q string) (sel sql.Select, ok bool) {
	defer func() {
		if r := recover(); r != nil {
			ok = false
		}
	}()
	ts := sql.NewTokenScanner(strings.NewReader(q))
	tl := sql.TokenList{}
	for ts.Next() {
		tl.Add(ts.Cur())
	}
	p := sql.Parser{TokenList: tl}
	st, err := p.Parse()
	if err != nil {
		return sel, false
	}
	sel, ok = st.(sql.Select)
	return sel, ok
}

func rowsDigest(rows []*storage.Row) string {
	if rows == nil {
		return "-"
	}
	var h hasher = 14695981039346656037
	for _, r := range rows {
		h.add(uint64(r.RowID), uint64(len(r.Vals)))
		for _, v := range r.Vals {
			h.addBytes([]byte(fmt.Sprintf("%T:%v|", v, v)))
		}
	}
	return fmt.Sprintf("%d rows #%x", len(rows), uint64(h))
}

func isSelectText(q string) bool {
	q = strings.TrimSpace(q)
	return len(q) >= 6 && strings.EqualFold(q[:6], "select")
}
