package core

import "os"

// Profiles: generator settings per property and tier. Quick profiles aim at
// many short, diverse runs; thorough profiles add long histories (deep trees,
// many tables), full crash-site sweeps and nested crashes.

var allTicks = []string{"none", "each", "random", "burst", "late", "sparse"}

func base(prop string) *Profile {
	return &Profile{
		Prop: prop, Stmts: [2]int{15, 60}, Tables: [2]int{1, 4}, DBs: [2]int{1, 1}, MaxRows: 8,
		WCreate: 3, WInsert: 40, WUpdate: 14, WDelete: 14, WSelect: 6, WRestart: 2, WFail: 4,
		Values: "mixed", CacheCaps: []int{0, 0, 16, 24, 48, 128}, TickModes: allTicks, StallP: 0.05,
		ContStmts: [2]int{4, 14}, MaxDepth: 3, NestP: 0.3, FinalClose: 0.3, CheckEvery: 1,
		FailAnyK: true,
	}
}

// ProfileFor returns the profile of (property, tier, variant). Variants
// rotate with the seed so that one batch mixes several workload shapes (swarm).
func ProfileFor(prop, tier string, seed uint64) *Profile {
	if prop == "C13R" {
		// plans for the race-detector workers of C13: the C13 workload over
		// several databases (CREATE DATABASE and USE while another database
		// has dirty pages and a live flusher), restarts included
		pf := ProfileFor("C13", tier, seed)
		c13MultiDB(pf)
		return pf
	}
	pf := base(prop)
	pf.Tier = tier
	thorough := tier == "thorough"
	v := int(seed % 8)
	switch prop {
	case "C01", "C02", "C08", "C11", "C12", "C16":
		pf.FatP = 0.06
	}
	switch prop {
	case "C02", "C13", "C14", "C17", "C03", "C04":
		pf.LazyWakeP = 0.3
	}
	switch prop {
	case "C01", "C02", "C03", "C04", "C08", "C13", "C14", "C16", "C17":
		pf.QuietP = 0.25
	}
	switch prop {
	case "C01":
		pf.TreeEvery = 0
		switch {
		case v == 0: // growth: one table, many rows, deletes before growth
			pf.Stmts = [2]int{60, 140}
			pf.Tables = [2]int{1, 1}
			pf.WInsert, pf.WDelete, pf.WUpdate, pf.WCreate = 70, 12, 6, 0
			pf.MaxRows = 12
			pf.CheckEvery = 5
		case v == 1: // many tables: catalog growth
			pf.Stmts = [2]int{40, 90}
			pf.Tables = [2]int{6, 14}
			pf.WCreate = 14
			pf.CheckEvery = 4
		case v == 2: // delete heavy
			pf.WDelete, pf.WInsert = 30, 40
		}
		if v == 5 { // deep: one table grown past the first internal-node split (1165 rows) in few, wide statements
			pf.Stmts = [2]int{85, 130}
			pf.Tables = [2]int{1, 1}
			pf.WInsert, pf.WDelete, pf.WUpdate, pf.WCreate, pf.WSelect, pf.WFail, pf.WRestart = 100, 5, 1, 0, 1, 0, 3
			pf.MaxRows = 16
			pf.WideInserts = true
			pf.CheckEvery = 25
			pf.BigInsertOnly = true
			pf.StallP = 0.01
		}
		if thorough && v == 3 {
			pf.Stmts = [2]int{400, 800}
			pf.Tables = [2]int{1, 2}
			pf.WInsert, pf.WDelete, pf.WUpdate, pf.WCreate, pf.WSelect = 80, 8, 3, 0, 1
			pf.MaxRows = 16
			pf.CheckEvery = 40
			pf.BigInsertOnly = true
		}
		if thorough && v == 4 {
			pf.Stmts = [2]int{120, 200}
			pf.Tables = [2]int{20, 32}
			pf.WCreate = 30
			pf.CheckEvery = 10
		}
	case "C02":
		pf.Boundary = 6
		pf.Stmts = [2]int{10, 45}
		if v == 6 { // many tables: catalog trees with internal roots
			pf.Tables = [2]int{7, 12}
			pf.WCreate = 14
			pf.Stmts = [2]int{25, 70}
		}
		if v == 5 { // deep: crashes and recoveries of a height-3 tree
			pf.Stmts = [2]int{85, 130}
			pf.Tables = [2]int{1, 1}
			pf.WInsert, pf.WDelete, pf.WUpdate, pf.WCreate, pf.WSelect, pf.WFail, pf.WRestart = 100, 2, 1, 0, 1, 0, 2
			pf.MaxRows = 16
			pf.WideInserts = true
			pf.CheckEvery = 30
			pf.BigInsertOnly = true
			pf.Boundary = 3
			pf.ContStmts = [2]int{3, 8}
			pf.StallP = 0.01
		}
		if thorough {
			pf.Boundary = 24
			pf.Stmts = [2]int{20, 120}
			pf.ContStmts = [2]int{5, 30}
			if v == 3 {
				pf.Stmts = [2]int{150, 300}
				pf.WInsert, pf.WCreate = 70, 1
				pf.MaxRows = 14
				pf.CheckEvery = 10
			}
		}
	case "C03":
		pf.WalStmts = 2
		pf.Stmts = [2]int{8, 35}
		pf.MaxRows = 6
		pf.WFail = 9 // statements refused at a later row log their rows and the compensation
		pf.NestP = 0.1
		pf.ContStmts = [2]int{3, 10}
		if v == 6 { // many tables: catalog trees with internal roots
			pf.Tables = [2]int{7, 12}
			pf.WCreate = 14
			pf.Stmts = [2]int{25, 60}
			pf.ContStmts = [2]int{6, 16}
		}
		if v == 5 && (thorough || seed%32 == 5) { // deep: log cuts inside the statements that grow the tree to height 3 (costly: one in 32 quick plans)
			pf.WalStmts = 1
			pf.Stmts = [2]int{85, 130}
			pf.Tables = [2]int{1, 1}
			pf.WInsert, pf.WDelete, pf.WUpdate, pf.WCreate, pf.WSelect, pf.WFail, pf.WRestart = 100, 2, 1, 0, 1, 0, 1
			pf.MaxRows = 16
			pf.WideInserts = true
			pf.CheckEvery = 40
			pf.BigInsertOnly = true
			pf.StallP = 0.01
			pf.ContStmts = [2]int{4, 10}
			pf.TickModes = []string{"sparse", "late", "none"}
		}
		if thorough && !pf.BigInsertOnly {
			pf.WalStmts = 6
			pf.Stmts = [2]int{10, 70}
			pf.MaxRows = 10
		}
		if (thorough && seed%16 == 9) || (!thorough && seed%1000000 == 9) || longLogForced {
			longLog(pf, seed/16)
		}
	case "C04":
		pf.FlushImgs = 8
		pf.Stmts = [2]int{8, 40}
		pf.TickModes = []string{"each", "random", "burst", "late", "sparse"}
		pf.FinalClose = 0.5
		pf.WCreate = 6
		if v == 6 { // many tables
			pf.Tables = [2]int{7, 12}
			pf.WCreate = 14
			pf.Stmts = [2]int{25, 60}
		}
		if thorough {
			pf.FlushImgs = 30
			pf.Stmts = [2]int{10, 90}
			pf.EnumFlush = true
		}
	case "C08":
		pf.Values = "extreme"
		pf.WFail = 14
		pf.WRestart = 5
		pf.Boundary = 2
		pf.CacheCaps = []int{0, 16, 16, 24, 32}
		pf.WSelect = 10
		if thorough {
			pf.Stmts = [2]int{40, 160}
			pf.Boundary = 6
		}
	case "C11":
		pf.TreeEvery = 1
		pf.Boundary = 2
		pf.WRestart = 4
		switch v {
		case 0, 1:
			pf.Stmts = [2]int{60, 150}
			pf.Tables = [2]int{1, 2}
			pf.WInsert, pf.WCreate = 70, 1
			pf.MaxRows = 12
			pf.TreeEvery = 3
			pf.CheckEvery = 6
		case 2:
			pf.Tables = [2]int{6, 12}
			pf.WCreate = 12
		case 5: // deep: height-3 tree within the quick budget
			pf.Stmts = [2]int{85, 130}
			pf.Tables = [2]int{1, 1}
			pf.WInsert, pf.WDelete, pf.WUpdate, pf.WCreate, pf.WSelect, pf.WFail, pf.WRestart = 100, 2, 1, 0, 1, 0, 1
			pf.MaxRows = 16
			pf.WideInserts = true
			pf.TreeEvery = 10
			pf.CheckEvery = 30
			pf.BigInsertOnly = true
			pf.Boundary = 1
			pf.StallP = 0.01
		}
		if v == 7 {
			// refusals: a cache of a dozen pages, no tick while a statement could
			// use one, statements of many rows - the cache fills up with dirty
			// pages in the middle of a statement (often inside a split) and the
			// statement is refused; the trees are walked right after
			pf.CacheCaps = []int{12, 13, 14, 16, 20}
			pf.NoForceFlush = true
			pf.TickModes = []string{"none", "sparse", "late"}
			pf.Tables = [2]int{1, 2}
			pf.WInsert, pf.WCreate, pf.WDelete, pf.WUpdate = 80, 1, 6, 6
			pf.MaxRows = 24
			pf.Stmts = [2]int{20, 80}
			pf.Boundary = 0
			pf.TreeEvery = 4
		}
		if thorough && (v == 3 || v == 4) {
			pf.Stmts = [2]int{500, 900}
			pf.Tables = [2]int{1, 1}
			pf.WInsert, pf.WDelete, pf.WUpdate, pf.WCreate, pf.WSelect, pf.WFail = 90, 5, 2, 0, 0, 0
			pf.MaxRows = 16
			pf.TreeEvery = 50
			pf.CheckEvery = 100
			pf.BigInsertOnly = true
			pf.Boundary = 1
		}
	case "C12":
		pf.Values = "extreme"
		pf.CacheCaps = []int{16, 16, 24, 32, 0}
		pf.WRestart = 4
		pf.Stmts = [2]int{30, 90}
		pf.MaxRows = 12
		if v == 5 { // deep: internal nodes with hundreds of cells
			pf.Stmts = [2]int{85, 130}
			pf.Tables = [2]int{1, 1}
			pf.WInsert, pf.WDelete, pf.WUpdate, pf.WCreate, pf.WSelect, pf.WFail, pf.WRestart = 100, 2, 1, 0, 1, 0, 1
			pf.MaxRows = 16
			pf.WideInserts = true
			pf.CheckEvery = 30
			pf.BigInsertOnly = true
		}
		if thorough && v < 2 {
			pf.Stmts = [2]int{500, 900}
			pf.Tables = [2]int{1, 1}
			pf.WInsert, pf.WDelete, pf.WUpdate, pf.WCreate, pf.WSelect, pf.WFail = 90, 5, 2, 0, 0, 0
			pf.MaxRows = 16
			pf.CheckEvery = 100
			pf.BigInsertOnly = true
		}
	case "C13":
		pf.StallP = 0.5
		pf.Stmts = [2]int{8, 30}
		pf.TickModes = []string{"random", "each", "sparse"}
		pf.WCreate = 8
		pf.WSelect = 10
		pf.CacheCaps = []int{0, 0, 32}
		pf.WFail = 12         // refused statements (also at a later row: the undo paths) under every tick placement
		if v == 2 || v == 6 { // many tables: the catalog trees split inside CREATE TABLE
			pf.Tables = [2]int{7, 13}
			pf.WCreate = 30
			pf.Stmts = [2]int{14, 40}
		}
		if thorough {
			pf.Stmts = [2]int{10, 60}
		}
		if seed%7 == 3 {
			// a share of the ordinary workers runs the several-database workload too
			c13MultiDB(pf)
		}
	case "C14":
		pf.WFail = 30
		pf.WRestart = 6
		pf.Boundary = 3
		pf.FlushImgs = 2 // mostly the flush right after a refused statement, torn before the header
		pf.StrictFlushOnly = true
		pf.WRaw = 8 // raw INSERT / UPDATE / DELETE with odd WHERE clauses and column lists: if refused, nothing may change
		pf.RawMutations = true
		pf.RawDMLOnly = true
		pf.Stmts = [2]int{10, 40}
		pf.TickModes = []string{"none", "each", "random"}
	case "C15":
		pf.CacheCaps = []int{12, 14, 16, 20, 32, 64}
		pf.TickModes = []string{"none", "sparse", "random", "late"}
		pf.Stmts = [2]int{20, 80}
		pf.WRestart = 1
	case "C16":
		pf.CacheCaps = []int{12, 14, 16, 20, 32, 64, 128, 256}
		pf.ForceFlush = true
		pf.FlushMargins = []int{1, 1, 2, 2, 3, 4, 6, 8, 10, 10}
		pf.Stmts = [2]int{30, 120}
		pf.WRaw = 12
		pf.WSelect = 8
		pf.WFail = 4
		if thorough {
			pf.Stmts = [2]int{60, 400}
		}
		if v == 5 { // deep: a height-3 tree under a cache of a dozen pages
			pf.Stmts = [2]int{85, 130}
			pf.Tables = [2]int{1, 2}
			pf.WInsert, pf.WDelete, pf.WUpdate, pf.WCreate, pf.WSelect, pf.WFail, pf.WRestart, pf.WRaw = 100, 2, 1, 0, 1, 0, 1, 1
			pf.MaxRows = 16
			pf.WideInserts = true
			pf.CheckEvery = 30
			pf.BigInsertOnly = true
			pf.StallP = 0.01
		}
	case "C17":
		pf.DBs = [2]int{2, 4}
		pf.WUseSwitch, pf.WCreateDB, pf.WShowDB, pf.WBadDB = 12, 4, 3, 5
		pf.OpenFailP = 0.12
		pf.WRestart = 6
		pf.Boundary = 2
		pf.Stmts = [2]int{15, 60}
		pf.Tables = [2]int{1, 3}
	case "C18":
		pf.WRaw = 40
		pf.RawMutations = true
		pf.WFail = 10
		pf.WBadDB = 4
		pf.WUseSwitch = 2
		pf.Values = "mixed"
		pf.Stmts = [2]int{15, 60}
	}
	if (prop == "C01" || prop == "C11" || prop == "C16") && ((thorough && seed%16 == 9) || (!thorough && seed%1000000 == 9) || giantForced) {
		giant(pf, seed/16)
	}
	if prop == "C13" && ((thorough && seed%16 == 3) || bulkForced) {
		bulk(pf, seed/16)
	}
	if (prop == "C01" || prop == "C11") && ((thorough && seed%16 == 5) || colossalForced) {
		colossal(pf, seed/16)
	}
	return pf
}

// c13MultiDB: the C13 workload over several databases, with USE statements
// that meet an open error.
func c13MultiDB(pf *Profile) {
	pf.DBs = [2]int{1, 3}
	pf.WUseSwitch, pf.WCreateDB, pf.WBadDB = 10, 5, 2
	pf.WRestart = 3
	pf.TickModes = []string{"random", "each", "sparse", "late"}
	pf.OpenFailP = 0.4
}

// giant: one table grown by wide INSERTs until it has more leaves than the
// default cache has room for pages (10 000), then a tail of updates, deletes,
// selects and restarts that favours the newest rows. A sixteenth of the
// thorough jobs, one job (the tenth) of every quick run: the one
// place where the amount of data is real.
func giant(pf *Profile, r uint64) {
	pf.GiantRows = 43000 + int(r%5)*1500
	pf.MaxRows = 64
	pf.WideInserts = true
	pf.BigInsertOnly = true
	pf.Tables = [2]int{1, 1}
	n := pf.GiantRows/pf.MaxRows + 40
	pf.Stmts = [2]int{n, n + 40}
	pf.WInsert, pf.WUpdate, pf.WDelete, pf.WSelect, pf.WRestart, pf.WCreate, pf.WFail, pf.WRaw = 10, 40, 15, 10, 4, 0, 3, 0
	pf.CheckEvery = 250
	pf.TreeEvery = 0
	if pf.Prop == "C11" {
		pf.TreeEvery = 350 // a walk over 10 000 leaves in the middle, one at the end
	}
	pf.StallP = 0.002
	pf.FatP = 0
	pf.Values = "plain"
	pf.CacheCaps = []int{0}
	pf.Boundary, pf.WalStmts, pf.FlushImgs = 0, 0, 0
}

// colossal: one table grown past its 169 941st row - the row at which the
// root of a height-3 tree is full and the tree gets its third level of
// internal pages (9 rows per leaf split in the middle, 290 children per
// internal page: 4 * 290 * 146 + ...). The height of a tree cannot be faked by
// raising a counter; 172 000 rows are 43 000 leaves and a data file of 170 MB
// on tmpfs. A sixteenth of the thorough jobs of C01 and C11 (~40 s each).
func colossal(pf *Profile, r uint64) {
	giant(pf, r)
	pf.GiantRows = 170700 + int(r%4)*600
	pf.MaxRows = 512
	n := pf.GiantRows/pf.MaxRows + 12
	pf.Stmts = [2]int{n, n + 10}
	pf.WInsert, pf.WUpdate, pf.WDelete, pf.WSelect, pf.WRestart, pf.WCreate, pf.WFail, pf.WRaw = 30, 6, 6, 2, 3, 0, 2, 0
	pf.CheckEvery = 400
	if pf.Prop == "C11" {
		pf.TreeEvery = 0 // one walk over 43 000 leaves at the end (TreeEvery 0 would mean never: see below)
		pf.TreeEvery = n + 100
	}
}

// bulk (C13, thorough): statements that touch thousands of rows - one table of
// 4 200 to 16 500 rows, then whole-table and wide-range DELETEs and UPDATEs
// held open across ticks. Code that treats a long statement differently from a
// short one (yields its lock every so many rows, flushes in between, batches
// its log records) only runs here. No yield-point sweep for these plans (each
// derived plan would rebuild the table); the stalls of the plan itself place
// the ticks early in the long statements.
func bulk(pf *Profile, r uint64) {
	giant(pf, r)
	pf.GiantRows = []int{4200, 8300, 8900, 16500}[r%4]
	pf.BulkStmts = true
	n := pf.GiantRows/pf.MaxRows + 14
	pf.Stmts = [2]int{n, n + 8}
	pf.WInsert, pf.WUpdate, pf.WDelete, pf.WSelect, pf.WRestart, pf.WCreate, pf.WFail, pf.WRaw = 6, 30, 30, 6, 2, 0, 3, 0
	pf.CheckEvery = 40
	pf.StallP = 0.5
	pf.TickModes = []string{"random", "sparse", "each"}
}

// bulkForced: SIM_BULK=1 makes every C13 plan a bulk one.
var bulkForced = os.Getenv("SIM_BULK") != ""

// colossalForced: SIM_COLOSSAL=1 makes every plan of C01 / C11 a colossal one.
var colossalForced = os.Getenv("SIM_COLOSSAL") != ""

// giantForced: SIM_GIANT=1 makes every plan of C01 / C11 / C16 a giant one (for
// measurements and for trying a seeded change that needs the scale).
var giantForced = os.Getenv("SIM_GIANT") != ""

// longLog: a log of more than 65 536 records (a few MB; mkdb never resets its
// log): one table of ~2200 rows, then whole-table UPDATEs of ~2200 records
// each until the log is long enough, then the usual statements with log cuts,
// recoveries and second deaths. Thorough tier, a sixteenth of the C03 jobs.
func longLog(pf *Profile, r uint64) {
	pf.GiantRows = 2100 + int(r%4)*100
	pf.LongLog = 66500 + int(r%7)*1500
	pf.MaxRows = 64
	pf.WideInserts = true
	pf.BigInsertOnly = true
	pf.Tables = [2]int{1, 1}
	n := pf.GiantRows/pf.MaxRows + pf.LongLog/pf.GiantRows + 25
	pf.Stmts = [2]int{n, n + 20}
	pf.WInsert, pf.WUpdate, pf.WDelete, pf.WSelect, pf.WRestart, pf.WCreate, pf.WFail, pf.WRaw = 30, 30, 15, 3, 2, 0, 6, 0
	pf.CheckEvery = 20
	pf.StallP = 0.002
	pf.FatP = 0
	pf.Values = "plain"
	pf.CacheCaps = []int{0}
	pf.WalStmts = 3
	pf.LastStmtsOnly = 22
	pf.NestP = 0.6
	pf.ContStmts = [2]int{3, 8}
	pf.TickModes = []string{"sparse", "late", "none"}
}

var longLogForced = os.Getenv("SIM_LONGLOG") != ""
