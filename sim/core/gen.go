package core

import (
	"fmt"
	"math"
	"strings"
)

// Seeded plan generator. One seed -> one plan; executing a plan draws no
// further random numbers.

type Rng struct{ s uint64 }

func NewRng(seed uint64) *Rng { return &Rng{s: seed*0x9e3779b97f4a7c15 + 0x1234567} }
func (r *Rng) U64() uint64    { return splitmix(&r.s) }
func (r *Rng) Intn(n int) int {
	if n <= 0 {
		return 0
	}
	return int(r.U64() % uint64(n))
}
func (r *Rng) Perm(n int) []int {
	p := make([]int, n)
	for i := range p {
		p[i] = i
	}
	for i := n - 1; i > 0; i-- {
		j := r.Intn(i + 1)
		p[i], p[j] = p[j], p[i]
	}
	return p
}
func (r *Rng) Range(lo, hi int) int  { return lo + r.Intn(hi-lo+1) }
func (r *Rng) Chance(p float64) bool { return float64(r.U64()%1000000)/1000000.0 < p }
func (r *Rng) Pick(ws []int) int {
	t := 0
	for _, w := range ws {
		t += w
	}
	if t == 0 {
		return 0
	}
	x := r.Intn(t)
	for i, w := range ws {
		if x < w {
			return i
		}
		x -= w
	}
	return len(ws) - 1
}

// Profile steers the generator for one property / tier.
type Profile struct {
	Prop    string
	Tier    string
	Stmts   [2]int // number of statements in the main timeline
	Tables  [2]int
	DBs     [2]int
	MaxRows int // rows per INSERT
	// weights: create, insert, update, delete, select, restart, failing
	WCreate, WInsert, WUpdate, WDelete, WSelect, WRestart, WFail int
	WUseSwitch, WCreateDB, WShowDB, WBadDB                       int    // multi-database statements (C17)
	WRaw                                                         int    // type-confused / NULL-touching raw SQL (C18)
	RawMutations                                                 bool   // raw statements may change the database (model stops following)
	Values                                                       string // "plain", "mixed", "extreme"
	FailAnyK                                                     bool   // failing multi-row statements may fail at row k>0 (C14)
	CacheCaps                                                    []int  // candidates; 0 = default
	TickModes                                                    []string
	StallP                                                       float64 // probability that a statement gets an in-statement stall directive
	// images
	Boundary        int     // number of boundary images per run
	WalStmts        int     // number of statements whose every log event gets an image
	RawDMLOnly      bool    // raw statements: SELECT, INSERT, UPDATE, DELETE only (the model keeps following the tables)
	LazyWakeP       float64 // probability that a plan runs with Knobs.LazyWake
	QuietP          float64 // probability that a plan runs with Knobs.Quiet
	OpenFailP       float64 // probability that a USE of another database meets an open error (EMFILE) at the log or data file
	FatP            float64 // probability that a plan's tables hold only rows within a few bytes of the row limit (leaves of 8 maximal cells)
	fat             bool
	StrictFlushOnly bool // flush images only of the classes the engine is expected to survive (everything but C04)
	FlushImgs       int  // number of flush images
	ContStmts       [2]int
	NestP           float64 // probability that a continuation takes nested images
	MaxDepth        int
	FinalClose      float64
	CheckEvery      int
	TreeEvery       int
	ForceFlush      bool
	FlushMargins    []int
	EnumFlush       bool // thorough: enumerate every subset of small flushes
	NoForceFlush    bool // small caches without the forced tick: the cache may fill up with dirty pages inside a statement
	BigInsertOnly   bool // growth runs: mostly inserts into one table
	LongLog         int  // > 0: once the first table has GiantRows rows, whole-table UPDATEs follow until this many log records were written
	LastStmtsOnly   int  // > 0: log-cut images are placed in the last so many statements only
	GiantRows       int  // > 0: the first table is grown to this many rows by wide INSERTs before anything else happens (more leaves than the default cache holds pages)
	WideInserts     bool // every INSERT carries MaxRows rows
	BulkStmts       bool // giant-style plan whose UPDATEs / DELETEs may touch every row (C13 bulk variant)
}

type gen struct {
	grown bool // the first table has reached GiantRows once (bulk plans delete it again)
	r     *Rng
	pf    *Profile
	m     *Model
	tags  map[string]int64 // next tag per table (db.table)
	ntab  int
	ndb   int
	recs  int // log records the statements so far have written (predicted)
}

var identChars = "abcdefghijklmnopqrstuvwxyz"

func (g *gen) newName(prefix string, n int) string { return fmt.Sprintf("%s%d", prefix, n) }

// dbBase: most database names are db<n>; some contain the letters whose case
// mappings are irregular in Unicode.
func (g *gen) dbBase() string {
	if g.pf.DBs[1] > 1 && g.r.Chance(0.25) {
		// (tbl / wal / data: the names of mkdb's own files and directory)
		return []string{"disk", "kiosk", "sink", "tbl", "wal", "data", "tblwal"}[g.r.Intn(7)]
	}
	return "db"
}

// respell writes a database name the way a user might: now and then with a
// letter that lower-cases (or case-folds) to the plain one - capital I with
// dot, the Kelvin sign, the long s. The model follows strings.ToLower, as the
// file paths do.
func (g *gen) respell(name string) string {
	if !g.r.Chance(0.12) {
		return name
	}
	if g.r.Chance(0.25) {
		// a quoted identifier that names the same directory in another way
		return []string{"\"" + name + "/\"", "\"./" + name + "\"", "\"" + name + "/.\"", "\"" + name + "\ue0ff\"", "\"" + name[:1] + "\ue0c3" + name[1:] + "\""}[g.r.Intn(5)]
	}
	subst := [][2]string{{"i", "\u0130"}, {"k", "\u212a"}, {"s", "\u017f"}}
	p := subst[g.r.Intn(3)]
	if i := strings.Index(name, p[0]); i >= 0 {
		return name[:i] + p[1] + name[i+1:]
	}
	if g.r.Chance(0.5) {
		return strings.ToUpper(name)
	}
	return name
}

func (g *gen) genCols() []Col {
	n := g.r.Range(1, 5)
	if g.pf.fat && n < 2 {
		n = 2
	}
	if !g.pf.fat && g.r.Chance(0.04) {
		n = g.r.Range(6, 24) // wide tables: many catalog rows, long tuples of small values
	}
	cols := []Col{{Name: "k", Type: TInt}}
	for i := 1; i < n; i++ {
		ty := g.r.Intn(4)
		if g.pf.fat && i == 1 {
			ty = TVarchar
		}
		c := Col{Name: fmt.Sprintf("c%d", i), Type: ty}
		if g.r.Chance(0.05) {
			// names a catalog table uses for its own columns, mixed case
			c.Name = []string{"table_name", "field_name", "file_offset", "field_type", "field_length", "Col", "K"}[g.r.Intn(7)] + fmt.Sprint(i)
			if g.r.Chance(0.4) && i <= 5 {
				c.Name = []string{"", "table_name", "field_name", "file_offset", "field_type", "field_length"}[i]
			}
		}
		if ty == TVarchar {
			c.Len = int64(g.r.Range(1, 500))
		}
		cols = append(cols, c)
	}
	if len(cols) > 1 && g.r.Chance(0.2) {
		// the tag column need not come first: a table may start with a VARCHAR,
		// a BOOLEAN or a BIGINT column
		j := 1 + g.r.Intn(len(cols)-1)
		cols[0], cols[j] = cols[j], cols[0]
	}
	return cols
}

func (g *gen) genString(maxLen int, text bool) string {
	n := 0
	switch g.r.Intn(6) {
	case 0:
		n = 0
	case 1, 2, 3:
		n = g.r.Range(1, 12)
	case 4:
		n = g.r.Range(1, maxLen)
	default:
		n = g.r.Range(1, 40)
	}
	if n > maxLen {
		n = maxLen
	}
	var sb strings.Builder
	for i := 0; i < n; i++ {
		if text && g.pf.Values != "plain" && g.r.Chance(0.08) {
			sb.WriteString([]string{"é", "漢", "\"", "\t", "ß", "\x01", "–"}[g.r.Intn(7)])
		} else if text || g.pf.Values == "plain" || g.r.Chance(0.7) {
			const ok = "abcdefghijklmnopqrstuvwxyzABCDEFGHIJKLMNOPQRSTUVWXYZ0123456789 _-;,.()*=<>!"
			sb.WriteByte(ok[g.r.Intn(len(ok))])
		} else {
			sb.WriteByte(byte(g.r.Intn(256)))
		}
	}
	return sb.String()
}

func (g *gen) genVal(c Col, text bool, budget int) Val {
	if !text && g.pf.Values != "plain" && g.r.Chance(0.12) {
		return Null()
	}
	switch c.Type {
	case TInt:
		if g.pf.Values == "extreme" && g.r.Chance(0.3) {
			ex := []int64{math.MaxInt32, math.MinInt32, 0, -1, 1, math.MaxInt32 - 1, math.MinInt32 + 1}
			v := ex[g.r.Intn(len(ex))]
			if text && v < 0 {
				v = -v - 1
			}
			return Int(v)
		}
		v := int64(g.r.Intn(100000))
		if !text && g.pf.Values != "plain" && g.r.Chance(0.3) {
			v = -v
		}
		return Int(v)
	case TBigInt:
		if g.pf.Values == "extreme" && g.r.Chance(0.3) {
			ex := []int64{math.MaxInt64, math.MinInt64, math.MaxInt32 + 1, math.MinInt32 - 1, 0, -1}
			v := ex[g.r.Intn(len(ex))]
			if text && v < 0 {
				v = math.MaxInt64
			}
			return Int(v)
		}
		v := int64(g.r.U64() >> uint(g.r.Intn(63)+1))
		if !text && g.r.Chance(0.3) {
			v = -v
		}
		return Int(v)
	case TBool:
		return Bool(g.r.Chance(0.5))
	default:
		mx := budget
		if mx > 60 && g.pf.Values != "extreme" {
			mx = 60
		}
		if mx < 0 {
			mx = 0
		}
		return Str(g.genString(mx, text))
	}
}

// genRow makes a valid row for the table with a fresh tag.
func (g *gen) genRow(db string, t *MTable, text bool) []Val {
	key := db + "." + t.Name
	tag := g.tags[key]
	g.tags[key] = tag + 1
	vals := make([]Val, len(t.Cols))
	tagIdx := t.ColIdx("k")
	vals[tagIdx] = Int(tag)
	// size budget: keep the encoded row within the limit
	fixed := 0
	nvar := 0
	for _, c := range t.Cols {
		fixed++
		switch c.Type {
		case TInt:
			fixed += 4
		case TBigInt:
			fixed += 8
		case TBool:
			fixed++
		case TVarchar:
			fixed += 4
			nvar++
		}
	}
	budget := MaxRowBytes - fixed
	for i := 0; i < len(t.Cols); i++ {
		if i == tagIdx {
			continue
		}
		c := t.Cols[i]
		b := 0
		if c.Type == TVarchar {
			b = budget / nvar
		}
		vals[i] = g.genVal(c, text, b)
	}
	// rows of "interesting" encoded sizes: the log record is 25 bytes longer,
	// so these give record lengths around 128, 256 (low length byte zero), 384
	if nvar > 0 && g.pf.Values != "plain" && g.r.Chance(0.06) {
		targets := []int{102, 103, 104, 127, 128, 230, 231, 232, 255, 256, 257, 358, 359, 360, 399}
		want := targets[g.r.Intn(len(targets))]
		for i := 0; i < len(t.Cols); i++ {
			if t.Cols[i].Type != TVarchar {
				continue
			}
			if vals[i].IsNull() {
				vals[i] = Str("")
			}
			cur := EncSize(t.Cols, vals)
			switch {
			case cur < want:
				pad := "p"
				if !text {
					pad = string([]byte{byte(g.r.Intn(256))})
					if pad == "'" || pad == "\\" {
						pad = "q"
					}
				}
				vals[i] = Str(string(vals[i].S) + strings.Repeat("p", want-cur-1) + pad)
			case cur > want && len(vals[i].S) >= cur-want:
				vals[i] = Str(string(vals[i].S[:len(vals[i].S)-(cur-want)]))
			}
			break
		}
	}
	// boundary rows: exactly at the limit (fat plans: every row within 8 bytes of it)
	if (g.pf.Values == "extreme" && nvar > 0 && g.r.Chance(0.15)) || (g.pf.fat && nvar > 0) {
		for i := 0; i < len(t.Cols); i++ {
			if t.Cols[i].Type == TVarchar {
				if vals[i].IsNull() {
					vals[i] = Str("")
				}
				cur := EncSize(t.Cols, vals)
				pad := MaxRowBytes - cur
				if g.pf.fat {
					pad -= g.r.Intn(2) * g.r.Intn(9)
				}
				if pad > 0 {
					vals[i] = Str(string(vals[i].S) + strings.Repeat("x", pad))
				}
				break
			}
		}
	}
	return vals
}

func (g *gen) tagRange(db string, t *MTable) (lo, hi int64) {
	return 0, g.tags[db+"."+t.Name]
}

// genWhere: a condition on the tag column and, now and then, a further
// ordering comparison on another integer column (INT or BIGINT) against a
// constant from the whole 64-bit range - only on columns that hold no NULL in
// any row (an ordering comparison with NULL is an error in the engine).
func (g *gen) genWhere(db string, t *MTable, small bool) *Cond {
	w := g.genWhereTag(db, t, small)
	if !g.r.Chance(0.18) || len(t.Rows) == 0 {
		return w
	}
	var cand []int
	for i, c := range t.Cols {
		if c.Name == "k" || (c.Type != TInt && c.Type != TBigInt) {
			continue
		}
		ok := true
		for _, r := range t.Rows {
			if r.Vals[i].K != "i" {
				ok = false
				break
			}
		}
		if ok {
			cand = append(cand, i)
		}
	}
	if len(cand) == 0 {
		return w
	}
	ci := cand[g.r.Intn(len(cand))]
	var x int64
	switch g.r.Intn(6) {
	case 0:
		x = []int64{math.MinInt64, math.MaxInt64, math.MinInt64 + 1, math.MaxInt64 - 1}[g.r.Intn(4)]
	case 1:
		x = []int64{0, 1, -1, 2, math.MaxInt32, math.MinInt32, 1 << 32, -(1 << 32)}[g.r.Intn(8)]
	default:
		// around a stored value
		x = t.Rows[g.r.Intn(len(t.Rows))].Vals[ci].I
		switch g.r.Intn(3) {
		case 0:
			if x < math.MaxInt64 {
				x++
			}
		case 1:
			if x > math.MinInt64 {
				x--
			}
		}
	}
	c := Cmp{t.Cols[ci].Name, []string{"<", "<=", ">", ">=", "=", "!="}[g.r.Intn(6)], Int(x)}
	switch {
	case w == nil || len(w.Cmps) == 0:
		if small {
			return w
		}
		return &Cond{Cmps: []Cmp{c}}
	case len(w.Cmps) == 1:
		op := []string{"and", "and", "or"}[g.r.Intn(3)]
		if small {
			op = "and"
		}
		return &Cond{Op: op, Cmps: []Cmp{w.Cmps[0], c}}
	default:
		if small && w.Op == "or" {
			return w
		}
		// position matters for short-circuit evaluation: first or last
		if g.r.Chance(0.5) {
			return &Cond{Op: w.Op, Cmps: append([]Cmp{c}, w.Cmps...)}
		}
		return &Cond{Op: w.Op, Cmps: append(append([]Cmp(nil), w.Cmps...), c)}
	}
}

func (g *gen) genWhereTag(db string, t *MTable, small bool) *Cond {
	_, hi := g.tagRange(db, t)
	if hi == 0 {
		hi = 1
	}
	pick := func() int64 {
		// a third of the time one of the newest rows: they sit in the right-most
		// leaf, where the next split happens
		if hi > 12 && g.r.Chance(0.33) {
			return hi - int64(g.r.Intn(10))
		}
		return int64(g.r.Intn(int(hi) + 1))
	}
	switch g.r.Intn(7) {
	case 0:
		if small {
			return &Cond{Cmps: []Cmp{{"k", "=", Int(pick())}}}
		}
		return nil
	case 1, 2:
		return &Cond{Cmps: []Cmp{{"k", "=", Int(pick())}}}
	case 3:
		a := pick()
		w := int64(g.r.Range(0, 6))
		return &Cond{Op: "and", Cmps: []Cmp{{"k", ">=", Int(a)}, {"k", "<", Int(a + w)}}}
	case 4:
		return &Cond{Op: "or", Cmps: []Cmp{{"k", "=", Int(pick())}, {"k", "=", Int(pick())}, {"k", "=", Int(pick())}}}
	case 5:
		a := pick()
		if small {
			return &Cond{Op: "and", Cmps: []Cmp{{"k", ">", Int(a)}, {"k", "<=", Int(a + 4)}}}
		}
		return &Cond{Cmps: []Cmp{{"k", ">", Int(a)}}}
	default:
		a := pick()
		return &Cond{Op: "and", Cmps: []Cmp{{"k", "!=", Int(a)}, {"k", ">=", Int(a - 2)}, {"k", "<=", Int(a + 3)}}}
	}
}

func condTextOK(w *Cond) bool {
	if w == nil {
		return true
	}
	for _, c := range w.Cmps {
		if c.V.K == "i" && c.V.I < 0 {
			return false
		}
	}
	return true
}

// apply runs the statement on the generator's model (assuming the engine agrees).
func (g *gen) apply(s *Stmt) *Expect {
	e := g.m.Predict(s)
	if e.OK {
		e.Apply(g.m)
	}
	return e
}

func (g *gen) pickTable() (*MDB, *MTable) {
	db := g.m.CurDB()
	if db == nil || len(db.Tables) == 0 {
		return db, nil
	}
	return db, db.Tables[g.r.Intn(len(db.Tables))]
}

func (g *gen) stmtCreate() Stmt {
	g.ntab++
	st := Stmt{Kind: KCreate, Table: g.newName("t", g.ntab), Cols: g.genCols(), ViaText: g.r.Chance(0.5)}
	if g.r.Chance(0.06) {
		// names that resemble the catalog's own, upper case, a column's name
		st.Table = g.newName([]string{"T", "sys_pages", "sys_schema", "table_name", "tbl", "k"}[g.r.Intn(6)], g.ntab)
	}
	if db := g.m.CurDB(); db != nil && len(db.Tables) > 0 && g.r.Chance(0.08) {
		// the twin of an existing table in another letter case: a different table
		twin := db.Tables[g.r.Intn(len(db.Tables))].Name
		up := strings.ToUpper(twin)
		if g.r.Chance(0.5) {
			up = strings.ToUpper(twin[:1]) + twin[1:]
		}
		if up != twin && db.Table(up) == nil {
			st.Table = up
		}
	}
	if len(st.Cols) > 1 && g.r.Chance(0.04) {
		// a column name that makes its catalog row exactly as long as the limit allows (or a little shorter)
		i := g.r.Intn(len(st.Cols))
		for st.Cols[i].Name == "k" {
			i = g.r.Intn(len(st.Cols))
		}
		st.Cols[i].Name += strings.Repeat("x", MaxRowBytes-20-len(st.Table)-len(st.Cols[i].Name)-g.r.Intn(3)*g.r.Intn(60))
	}
	return st
}

func (g *gen) stmtInsert(db *MDB, t *MTable, nrows int) Stmt {
	text := g.r.Chance(0.4)
	s := Stmt{Kind: KInsert, Table: t.Name, ViaText: text}
	// optional column list: all columns, or a subset containing k (others NULL)
	sub := len(t.Cols) > 1 && g.r.Chance(0.25)
	var idxs []int
	if sub {
		ti := t.ColIdx("k")
		idxs = []int{ti}
		for i := 0; i < len(t.Cols); i++ {
			if i != ti && g.r.Chance(0.5) {
				idxs = append(idxs, i)
			}
		}
		for _, i := range idxs {
			s.ColNames = append(s.ColNames, t.Cols[i].Name)
		}
	} else if g.r.Chance(0.3) {
		for i, c := range t.Cols {
			idxs = append(idxs, i)
			s.ColNames = append(s.ColNames, c.Name)
		}
	}
	if len(idxs) > 1 && g.r.Chance(0.5) {
		// column list in another order than the schema's
		for i := len(idxs) - 1; i > 0; i-- {
			j := g.r.Intn(i + 1)
			idxs[i], idxs[j] = idxs[j], idxs[i]
			s.ColNames[i], s.ColNames[j] = s.ColNames[j], s.ColNames[i]
		}
	}
	for i := 0; i < nrows; i++ {
		full := g.genRow(db.Name, t, text)
		if len(idxs) > 0 {
			var row []Val
			for _, j := range idxs {
				row = append(row, full[j])
			}
			s.Rows = append(s.Rows, row)
		} else {
			s.Rows = append(s.Rows, full)
		}
	}
	if text {
		if _, ok := s.SQLText(); !ok {
			s.ViaText = false
		} else if g.r.Chance(0.15) {
			s.LitStyle = 1 + g.r.Intn(2)
		}
	}
	return s
}

func (g *gen) stmtUpdate(db *MDB, t *MTable, small bool) Stmt {
	text := g.r.Chance(0.4)
	s := Stmt{Kind: KUpdate, Table: t.Name, Where: g.genWhere(db.Name, t, small), ViaText: text}
	// never update the tag column
	var cand []int
	for i := 0; i < len(t.Cols); i++ {
		if i != t.ColIdx("k") {
			cand = append(cand, i)
		}
	}
	if len(cand) == 0 {
		// only the tag column: set it to itself for one row
		v := int64(g.r.Intn(int(g.tags[db.Name+"."+t.Name]) + 1))
		s.Where = &Cond{Cmps: []Cmp{{"k", "=", Int(v)}}}
		s.Set = []SetItem{{"k", Int(v)}}
		return s
	}
	if len(t.Rows) > 0 && g.r.Chance(0.1) {
		// name EVERY column, the tag column too (it keeps its value), in any order
		r0 := t.Rows[g.r.Intn(len(t.Rows))]
		tag := r0.Vals[t.ColIdx("k")]
		s.Where = &Cond{Cmps: []Cmp{{"k", "=", tag}}}
		order := g.r.Perm(len(t.Cols))
		for _, i := range order {
			c := t.Cols[i]
			if c.Name == "k" {
				s.Set = append(s.Set, SetItem{"k", tag})
				continue
			}
			b := 0
			if c.Type == TVarchar {
				b = 40
			}
			s.Set = append(s.Set, SetItem{c.Name, g.genVal(c, text, b)})
		}
		if text {
			if _, ok := s.SQLText(); !ok || !condTextOK(s.Where) {
				s.ViaText = false
			}
		}
		return s
	}
	n := g.r.Range(1, len(cand))
	used := map[int]bool{}
	for len(s.Set) < n {
		i := cand[g.r.Intn(len(cand))]
		if used[i] {
			continue
		}
		used[i] = true
		c := t.Cols[i]
		b := 0
		if c.Type == TVarchar {
			b = 40
		}
		s.Set = append(s.Set, SetItem{c.Name, g.genVal(c, text, b)})
	}
	if text {
		if _, ok := s.SQLText(); !ok || !condTextOK(s.Where) {
			s.ViaText = false
		} else if g.r.Chance(0.15) {
			s.LitStyle = 1 + g.r.Intn(2)
		}
	}
	return s
}

func (g *gen) stmtDelete(db *MDB, t *MTable, small bool) Stmt {
	s := Stmt{Kind: KDelete, Table: t.Name, Where: g.genWhere(db.Name, t, small), ViaText: g.r.Chance(0.5)}
	if !condTextOK(s.Where) {
		s.ViaText = false
	}
	return s
}

// values an INT column must refuse
var outOfInt32 = []Val{Int(math.MaxInt32 + 1), Int(math.MinInt32 - 1), Int(math.MaxInt64), Int(math.MinInt64), Int(math.MinInt64 + 1),
	Int(1 << 40), Int(-(1 << 40)), Int(1 << 32), Int(-(1 << 32)), Int(math.MaxInt64 - 1)}

// stmtFail makes a statement that must be refused.
func (g *gen) stmtFail(db *MDB, t *MTable) Stmt {
	kinds := []string{"unknown-table", "colcount", "type", "range", "size", "dup-table", "upd-size", "upd-type", "upd-range", "del-unknown", "upd-unknown", "create-long-name",
		"ins-badcol", "upd-badcol", "create-dupcol"}
	if g.pf.Prop == "C03" || g.pf.Prop == "C14" {
		// the refusal with the longest tail of log records - an UPDATE that
		// changes several rows, is refused at a later one and compensates - is
		// worth more than one lot in fifteen where log cuts and undo are the subject
		kinds = append(kinds, "upd-size", "upd-size", "upd-size")
	}
	for tries := 0; tries < 8; tries++ {
		kind := kinds[g.r.Intn(len(kinds))]
		switch kind {
		case "unknown-table":
			return Stmt{Kind: KInsert, Table: "nosuch", Rows: [][]Val{{Int(1)}}, ViaText: g.r.Chance(0.5)}
		case "del-unknown":
			return Stmt{Kind: KDelete, Table: "nosuch", ViaText: g.r.Chance(0.5)}
		case "upd-unknown":
			return Stmt{Kind: KUpdate, Table: "nosuch", Set: []SetItem{{"k", Int(1)}}, ViaText: g.r.Chance(0.5)}
		case "create-long-name":
			// a table or column name so long that a catalog row exceeds the row limit
			g.ntab++
			st := Stmt{Kind: KCreate, Table: g.newName("t", g.ntab), Cols: g.genCols(), ViaText: g.r.Chance(0.5)}
			if g.r.Chance(0.25) {
				// declared VARCHAR length beyond the INT column that stores it in the catalog
				i := g.r.Intn(len(st.Cols))
				st.Cols[i].Type = TVarchar
				st.Cols[i].Len = []int64{2147483648, 3000000000, 1 << 40}[g.r.Intn(3)]
			} else if g.r.Chance(0.3) {
				st.Table = st.Table + strings.Repeat("n", MaxRowBytes-14-len(st.Table)+g.r.Range(1, 40))
			} else {
				i := g.r.Intn(len(st.Cols))
				over := MaxRowBytes - 20 - len(st.Table) - len(st.Cols[i].Name) + 1
				if g.r.Chance(0.5) {
					over += g.r.Range(1, 60)
				}
				st.Cols[i].Name += strings.Repeat("c", over)
			}
			return st
		case "create-dupcol":
			// a column named twice
			g.ntab++
			st := Stmt{Kind: KCreate, Table: g.newName("t", g.ntab), Cols: g.genCols(), ViaText: g.r.Chance(0.5)}
			if len(st.Cols) < 2 {
				st.Cols = append(st.Cols, Col{Name: "x2", Type: TBigInt})
			}
			i := g.r.Intn(len(st.Cols))
			j := (i + 1 + g.r.Intn(len(st.Cols)-1)) % len(st.Cols)
			st.Cols[j].Name = st.Cols[i].Name
			return st
		case "ins-badcol", "upd-badcol":
			if t == nil {
				continue
			}
			// a column list / SET list naming an unknown column (also: known but in
			// another letter case) or naming one column twice
			names := colNamesOf(t.Cols)
			j := g.r.Intn(len(names))
			twin := -1
			switch g.r.Intn(4) {
			case 0:
				names[j] = []string{"nosuch", "k2", "col", "_"}[g.r.Intn(4)]
			case 1:
				if up := strings.ToUpper(names[j]); up != names[j] {
					names[j] = up
				} else {
					names[j] = strings.ToLower(names[j]) + "x"
				}
			default:
				if len(names) < 2 {
					names[j] = "nosuch"
				} else {
					twin = (j + 1 + g.r.Intn(len(names)-1)) % len(names)
					names[j] = names[twin]
				}
			}
			if kind == "ins-badcol" {
				st := Stmt{Kind: KInsert, Table: t.Name, ColNames: names}
				for n := g.r.Range(1, 3); n > 0; n-- {
					st.Rows = append(st.Rows, g.genRow(db.Name, t, false))
				}
				if g.r.Chance(0.4) {
					if _, ok := st.SQLText(); ok {
						st.ViaText = true
					}
				}
				return st
			}
			st := Stmt{Kind: KUpdate, Table: t.Name, Where: g.genWhere(db.Name, t, true)}
			row := g.genRow(db.Name, t, false)
			for i, nm := range names {
				// the tag column keeps its value unless it is the spoilt entry
				if t.Cols[i].Name == "k" && nm == "k" && i != twin {
					continue
				}
				if i == j || i == twin || g.r.Chance(0.5) {
					st.Set = append(st.Set, SetItem{nm, row[i]})
				}
			}
			if g.r.Chance(0.4) && condTextOK(st.Where) {
				if _, ok := st.SQLText(); ok {
					st.ViaText = true
				}
			}
			return st
		case "dup-table":
			if t == nil {
				continue
			}
			nm := t.Name
			if g.r.Chance(0.2) {
				nm = []string{"sys_pages", "sys_schema"}[g.r.Intn(2)]
			}
			// same columns: if the table turns out not to exist (a crash image
			// adopted the state before its CREATE) the statement creates the same table
			return Stmt{Kind: KCreate, Table: nm, Cols: append([]Col(nil), t.Cols...), ViaText: g.r.Chance(0.5)}
		}
		if t == nil {
			continue
		}
		nrows := 1
		bad := 0
		if g.pf.FailAnyK && g.r.Chance(0.7) {
			nrows = g.r.Range(2, 5)
			bad = g.r.Intn(nrows)
		}
		mk := func(spoil func(row []Val) []Val) Stmt {
			s := Stmt{Kind: KInsert, Table: t.Name}
			for i := 0; i < nrows; i++ {
				row := g.genRow(db.Name, t, false)
				if i == bad {
					row = spoil(row)
				}
				s.Rows = append(s.Rows, row)
			}
			if g.r.Chance(0.4) {
				if _, ok := s.SQLText(); ok {
					s.ViaText = true
				}
			}
			return s
		}
		switch kind {
		case "colcount":
			return mk(func(row []Val) []Val {
				if g.r.Chance(0.5) || len(row) == 1 {
					return append(row, Int(7))
				}
				return row[:len(row)-1]
			})
		case "type":
			return mk(func(row []Val) []Val {
				i := g.r.Intn(len(row))
				switch t.Cols[i].Type {
				case TInt, TBigInt:
					row[i] = []Val{Str("x"), Bool(true)}[g.r.Intn(2)]
				case TVarchar:
					row[i] = []Val{Int(5), Bool(false)}[g.r.Intn(2)]
				default:
					row[i] = []Val{Int(1), Str("true")}[g.r.Intn(2)]
				}
				return row
			})
		case "range":
			var ints []int
			for i, c := range t.Cols {
				if c.Type == TInt {
					ints = append(ints, i)
				}
			}
			return mk(func(row []Val) []Val {
				i := ints[g.r.Intn(len(ints))]
				row[i] = outOfInt32[g.r.Intn(len(outOfInt32))]
				return row
			})
		case "size":
			vi := -1
			for i, c := range t.Cols {
				if c.Type == TVarchar {
					vi = i
				}
			}
			if vi < 0 {
				continue
			}
			return mk(func(row []Val) []Val {
				if row[vi].IsNull() {
					row[vi] = Str("")
				}
				over := MaxRowBytes - EncSize(t.Cols, row) + 1
				if g.r.Chance(0.3) {
					over += g.r.Range(1, 300)
				}
				if over < 1 {
					over = 1
				}
				row[vi] = Str(string(row[vi].S) + strings.Repeat("y", over))
				return row
			})
		case "upd-range":
			if len(t.Rows) == 0 {
				continue
			}
			var ints []int
			for i, c := range t.Cols {
				if c.Type == TInt && i != t.ColIdx("k") {
					ints = append(ints, i)
				}
			}
			if len(ints) == 0 {
				continue
			}
			r0 := t.Rows[g.r.Intn(len(t.Rows))]
			return Stmt{Kind: KUpdate, Table: t.Name, Where: &Cond{Cmps: []Cmp{{"k", "=", r0.Vals[t.ColIdx("k")]}}},
				Set: []SetItem{{t.Cols[ints[g.r.Intn(len(ints))]].Name, outOfInt32[g.r.Intn(len(outOfInt32))]}}}
		case "upd-size", "upd-type":
			if len(t.Rows) == 0 {
				continue
			}
			vi := -1
			for i, c := range t.Cols {
				if i != t.ColIdx("k") && (kind == "upd-type" || c.Type == TVarchar) {
					vi = i
				}
			}
			if vi < 0 {
				continue
			}
			// which rows: a single row unless failing at a later row is allowed
			r0 := t.Rows[g.r.Intn(len(t.Rows))]
			w := &Cond{Cmps: []Cmp{{"k", "=", r0.Vals[t.ColIdx("k")]}}}
			if g.pf.FailAnyK && g.r.Chance(0.6) {
				w = &Cond{Cmps: []Cmp{{"k", ">=", r0.Vals[t.ColIdx("k")]}}}
			}
			var v Val
			if kind == "upd-size" {
				v = Str(strings.Repeat("z", MaxRowBytes))
			} else {
				switch t.Cols[vi].Type {
				case TVarchar:
					v = Int(3)
				default:
					v = Str("q")
				}
			}
			s := Stmt{Kind: KUpdate, Table: t.Name, Where: w, Set: []SetItem{{t.Cols[vi].Name, v}}}
			if kind == "upd-size" && g.pf.FailAnyK && g.r.Chance(0.6) {
				// make only a later row overflow: a value that exactly fits the
				// first matched row but not a later, wider one
				first, widest := -1, -1
				other := func(r *MRow) int {
					vals := append([]Val(nil), r.Vals...)
					vals[vi] = Str("")
					return EncSize(t.Cols, vals)
				}
				for _, r := range t.Rows {
					if !t.match(w, r) {
						continue
					}
					o := other(r)
					if first < 0 {
						first = o
					} else if o > widest {
						widest = o
					}
				}
				if first >= 0 && widest > first && MaxRowBytes-first > 0 {
					s.Set[0].V = Str(strings.Repeat("w", MaxRowBytes-first))
				}
				// more often than not, let the first m rows pass (m up to 8, so that
				// they lie on two or three leaves) and a still later, wider one fail:
				// the statement has changed m rows when it is refused, and logs m
				// changes and m compensations
				var others []int
				for _, r := range t.Rows {
					if t.match(w, r) {
						others = append(others, other(r))
					}
				}
				if len(others) >= 3 && g.r.Chance(0.7) {
					hi := len(others) - 1
					if hi > 8 {
						hi = 8
					}
					m := g.r.Range(2, hi)
					mx := 0
					for _, o := range others[:m] {
						if o > mx {
							mx = o
						}
					}
					for _, o := range others[m:] {
						if o > mx && MaxRowBytes-mx > 0 {
							s.Set[0].V = Str(strings.Repeat("w", MaxRowBytes-mx))
							break
						}
					}
				}
			}
			return s
		}
	}
	return Stmt{Kind: KInsert, Table: "nosuch", Rows: [][]Val{{Int(1)}}}
}

// rawConfused returns type-confused / NULL-touching statements for C18.
func (g *gen) stmtRaw(db *MDB, t *MTable) Stmt {
	if t == nil {
		return Stmt{Kind: KRawSQL, SQL: "SELECT * FROM nosuch"}
	}
	col := func() string { return t.Cols[g.r.Intn(len(t.Cols))].Name }
	other := t
	if len(db.Tables) > 1 {
		other = db.Tables[g.r.Intn(len(db.Tables))]
	}
	ops := []string{"=", "!=", "<", "<=", ">", ">="}
	op := func() string { return ops[g.r.Intn(len(ops))] }
	lit := func() string { return []string{"1", "'a'", "TRUE", "0", "'zz'", "FALSE"}[g.r.Intn(6)] }
	tmpl := []func() string{
		func() string { return fmt.Sprintf("SELECT avg(%s) FROM %s", col(), t.Name) },
		func() string { return fmt.Sprintf("SELECT count(%s) FROM %s", col(), t.Name) },
		func() string { return fmt.Sprintf("SELECT %s, avg(%s) FROM %s GROUP BY %s", "k", col(), t.Name, "k") },
		func() string { return fmt.Sprintf("SELECT %s, count(*) FROM %s GROUP BY %s", col(), t.Name, col()) },
		func() string {
			return fmt.Sprintf("SELECT * FROM %s ORDER BY %s %s", t.Name, col(), []string{"ASC", "DESC"}[g.r.Intn(2)])
		},
		func() string { return fmt.Sprintf("SELECT * FROM %s ORDER BY %s, %s", t.Name, col(), col()) },
		func() string { return fmt.Sprintf("SELECT * FROM %s WHERE %s %s %s", t.Name, col(), op(), lit()) },
		func() string { return fmt.Sprintf("SELECT * FROM %s WHERE %s %s %s", t.Name, col(), op(), col()) },
		func() string {
			return fmt.Sprintf("SELECT * FROM %s WHERE %s %s %s AND %s %s %s", t.Name, col(), op(), lit(), col(), op(), lit())
		},
		func() string {
			return fmt.Sprintf("SELECT * FROM %s WHERE %s %s %s OR %s %s %s", t.Name, col(), op(), lit(), col(), op(), lit())
		},
		func() string { return fmt.Sprintf("SELECT nosuchcol FROM %s", t.Name) },
		func() string { return fmt.Sprintf("SELECT %s, %s FROM %s", col(), col(), t.Name) },
		func() string { return fmt.Sprintf("SELECT * FROM %s WHERE nosuch = 1", t.Name) },
		func() string {
			return fmt.Sprintf("SELECT a.%s, b.%s FROM %s a JOIN %s b ON a.k = b.k", col(), "k", t.Name, other.Name)
		},
		func() string {
			return fmt.Sprintf("SELECT * FROM %s a LEFT JOIN %s b ON a.%s = b.k", t.Name, other.Name, col())
		},
		func() string { return fmt.Sprintf("SELECT k FROM %s a JOIN %s b ON a.k = b.k", t.Name, other.Name) },
		func() string {
			return fmt.Sprintf("SELECT count(*), avg(a.%s) FROM %s a RIGHT JOIN %s b ON a.k = b.k", col(), t.Name, other.Name)
		},
		func() string { return fmt.Sprintf("SELECT * FROM %s a JOIN %s b ON a.%s", t.Name, other.Name, col()) },
		func() string {
			return fmt.Sprintf("SELECT * FROM %s LIMIT %d OFFSET %d", t.Name, g.r.Intn(5), g.r.Intn(5))
		},
		func() string {
			return fmt.Sprintf("UPDATE %s SET %s = %s WHERE %s %s %s", t.Name, col(), lit(), col(), op(), lit())
		},
		func() string { return fmt.Sprintf("UPDATE %s SET nosuch = 1", t.Name) },
		func() string { return fmt.Sprintf("UPDATE %s SET %s = %s", t.Name, col(), col()) },
		func() string { return fmt.Sprintf("DELETE FROM %s WHERE %s %s %s", t.Name, col(), op(), lit()) },
		func() string { return fmt.Sprintf("INSERT INTO %s (nosuch) VALUES (1)", t.Name) },
		func() string { return fmt.Sprintf("INSERT INTO %s VALUES ()", t.Name) },
		func() string { return "SELECT 1 = 1, 'a' < 2" },
		func() string { return "SELECT 1 < 'a'" },
		func() string { return fmt.Sprintf("SELECT avg(%s), count(*) FROM %s WHERE k < 0", col(), t.Name) },
		func() string { return "CREATE TABLE " + t.Name + " (k INT)" },
		func() string {
			// a column named twice (accepted today; if a version refuses it, nothing may be left behind)
			return fmt.Sprintf("CREATE TABLE dup%d (k INT, %s INT, c BIGINT, %s VARCHAR(20))", g.r.Intn(1000), []string{"a", "k"}[g.r.Intn(2)], []string{"a", "k", "c"}[g.r.Intn(3)])
		},
		func() string { return "CREATE TABLE x_" + t.Name + " ()" },
		func() string {
			return fmt.Sprintf("SELECT %s AS z, count(*) FROM %s GROUP BY z ORDER BY z", col(), t.Name)
		},
		func() string { return fmt.Sprintf("SELECT * FROM %s a JOIN %s b ON a.k = b.k", t.Name, t.Name) },
		func() string {
			return fmt.Sprintf("SELECT a.%s, b.%s FROM %s a JOIN %s b ON a.%s = b.%s", col(), col(), t.Name, t.Name, col(), col())
		},
		func() string { return fmt.Sprintf("SELECT * FROM %s WHERE %s", t.Name, col()) },
		func() string { return fmt.Sprintf("SELECT * FROM %s WHERE %s", t.Name, lit()) },
		func() string { return fmt.Sprintf("SELECT * FROM %s WHERE %s AND %s", t.Name, col(), col()) },
		func() string { return fmt.Sprintf("SELECT * FROM %s WHERE %s OR %s = %s", t.Name, col(), col(), lit()) },
		func() string {
			return fmt.Sprintf("SELECT * FROM %s a LEFT JOIN %s b ON a.k = b.k WHERE b.%s %s %s", t.Name, other.Name, other.Cols[g.r.Intn(len(other.Cols))].Name, op(), lit())
		},
		func() string {
			c := other.Cols[g.r.Intn(len(other.Cols))].Name
			return fmt.Sprintf("SELECT b.%s, count(*) FROM %s a LEFT JOIN %s b ON a.k = b.k GROUP BY b.%s", c, t.Name, other.Name, c)
		},
		func() string {
			c := other.Cols[g.r.Intn(len(other.Cols))].Name
			return fmt.Sprintf("SELECT avg(b.%s) FROM %s a LEFT JOIN %s b ON a.k = b.k", c, t.Name, other.Name)
		},
		func() string {
			c := other.Cols[g.r.Intn(len(other.Cols))].Name
			return fmt.Sprintf("SELECT count(b.%s), avg(a.k) FROM %s a RIGHT JOIN %s b ON a.%s = b.k", c, t.Name, other.Name, col())
		},
		func() string {
			return fmt.Sprintf("SELECT * FROM %s a LEFT JOIN %s b ON a.k = b.k ORDER BY b.k DESC", t.Name, other.Name)
		},
		func() string {
			return fmt.Sprintf("SELECT * FROM %s a JOIN %s b ON a.k = b.k JOIN %s c ON c.k = b.k", t.Name, other.Name, t.Name)
		},
		func() string { return fmt.Sprintf("SELECT * FROM %s a JOIN %s b ON 1", t.Name, other.Name) },
		func() string { return fmt.Sprintf("SELECT * FROM %s LIMIT 0", t.Name) },
		func() string { return fmt.Sprintf("SELECT * FROM %s OFFSET %d", t.Name, g.r.Intn(3000)) },
		func() string {
			return fmt.Sprintf("SELECT * FROM %s ORDER BY %s LIMIT %d OFFSET %d", t.Name, col(), g.r.Intn(4), g.r.Intn(40))
		},
		func() string { return fmt.Sprintf("SELECT count(*), %s FROM %s", col(), t.Name) },
		func() string { return fmt.Sprintf("SELECT %s FROM %s GROUP BY %s", col(), t.Name, col()) },
		func() string { return fmt.Sprintf("SELECT count(nosuch) FROM %s", t.Name) },
		func() string {
			return fmt.Sprintf("SELECT avg(%s), avg(%s), count(%s) FROM %s GROUP BY %s", col(), col(), col(), t.Name, col())
		},
		func() string { return fmt.Sprintf("SELECT * FROM %s ORDER BY nosuch", t.Name) },
		func() string {
			return fmt.Sprintf("SELECT %s, %s FROM %s ORDER BY %s DESC, %s", col(), col(), t.Name, col(), col())
		},
		func() string { return fmt.Sprintf("DELETE FROM %s WHERE nosuch = 1", t.Name) },
		// the catalog tables are tables too, as far as the parser is concerned
		func() string {
			return fmt.Sprintf("INSERT INTO sys_schema VALUES ('%s', 'ghost', %d, 0)", t.Name, g.r.Intn(4))
		},
		func() string {
			return fmt.Sprintf("UPDATE sys_pages SET file_offset = %d", g.r.Intn(9)*4096+g.r.Intn(2)*6)
		},
		func() string { return fmt.Sprintf("DELETE FROM sys_pages WHERE table_name = '%s'", t.Name) },
		func() string {
			return fmt.Sprintf("UPDATE sys_schema SET field_type = %d WHERE table_name = '%s'", g.r.Intn(9), t.Name)
		},
		func() string { return "DELETE FROM sys_schema" },
		func() string { return fmt.Sprintf("INSERT INTO sys_pages VALUES ('%s', 4096)", t.Name) },
		func() string { return fmt.Sprintf("DELETE FROM %s WHERE %s %s %s", t.Name, col(), op(), lit()) },
		func() string {
			return fmt.Sprintf("DELETE FROM %s WHERE %s %s %s OR %s %s %s", t.Name, col(), op(), lit(), col(), op(), lit())
		},
		func() string {
			return fmt.Sprintf("UPDATE %s SET %s = %s WHERE %s %s %s", t.Name, col(), lit(), col(), op(), lit())
		},
		func() string {
			return fmt.Sprintf("DELETE FROM %s WHERE k >= %d AND %s %s %s", t.Name, g.r.Intn(20), col(), op(), lit())
		},
		func() string { return fmt.Sprintf("DELETE FROM %s WHERE %s %s %s", t.Name, col(), op(), col()) },
		func() string {
			return fmt.Sprintf("UPDATE %s SET %s = %s WHERE nosuch %s %s", t.Name, col(), lit(), op(), lit())
		},
		func() string { return fmt.Sprintf("SELECT %s.%s FROM %s", other.Name, col(), t.Name) },
		func() string { return fmt.Sprintf("SELECT x.%s FROM %s", col(), t.Name) },
		func() string { return fmt.Sprintf("SELECT * FROM %s, %s", t.Name, other.Name) },
	}
	for {
		q := tmpl[g.r.Intn(len(tmpl))]()
		if g.r.Chance(0.45) {
			q = g.composeSelect(db, t, other)
		}
		if g.pf.RawMutations && g.r.Chance(0.18) {
			if g.r.Chance(0.6) {
				q = g.composeUpdate(t)
			} else {
				q = g.composeInsert(t)
			}
		}
		// nested-loop joins over grown tables run for minutes without
		// touching a single seam: keep the pair count bounded
		if nj := strings.Count(q, "JOIN"); nj > 0 {
			big := len(t.Rows)
			if len(other.Rows) > big {
				big = len(other.Rows)
			}
			pairs := 1
			for i := 0; i <= nj && pairs <= 60000; i++ {
				pairs *= big + 1
			}
			if pairs > 60000 {
				continue
			}
		}
		if g.pf.RawDMLOnly && !isSelectText(q) && !isRawDML(q) && !strings.HasPrefix(q, "CREATE TABLE dup") {
			continue
		}
		if g.pf.RawMutations || isSelectText(q) {
			return Stmt{Kind: KRawSQL, SQL: q}
		}
	}
}

// oddName: a column name as written by a careless user - mostly right,
// sometimes in another letter case, unknown, or a reserved-looking word.
func (g *gen) oddName(t *MTable) (string, *Col) {
	c := &t.Cols[g.r.Intn(len(t.Cols))]
	switch x := g.r.Intn(25); {
	case x == 0:
		return strings.ToUpper(c.Name), nil
	case x == 1:
		return strings.ToUpper(c.Name[:1]) + c.Name[1:], nil
	case x == 2:
		return "nosuch", nil
	}
	return c.Name, c
}

func rawLit(v Val) string {
	switch {
	case v.IsNull():
		return "''"
	case v.K == "s":
		return "'" + strings.Map(func(r rune) rune {
			if r == '\'' || r < 32 || r > 126 {
				return 'q'
			}
			return r
		}, string(v.S)) + "'"
	case v.K == "b":
		if v.B {
			return "TRUE"
		}
		return "FALSE"
	}
	return fmt.Sprint(v.I)
}

// composeUpdate builds an UPDATE clause by clause: 1-3 SET items over right,
// mis-cased, unknown or repeated column names, with values of the right type,
// the wrong type, out of range, or sized so that the first matching row still
// fits and a later, wider one does not (the statement is then refused at a
// later row and takes its earlier rows back). Outcome unmodelled: C18 only.
func (g *gen) composeUpdate(t *MTable) string {
	r := g.r
	where := ""
	var w *Cond
	if len(t.Rows) > 0 && r.Chance(0.7) {
		r0 := t.Rows[r.Intn(len(t.Rows))]
		op := []string{">=", "=", "<=", "!="}[r.Intn(4)]
		w = &Cond{Cmps: []Cmp{{"k", op, r0.Vals[t.ColIdx("k")]}}}
		where = fmt.Sprintf(" WHERE k %s %s", op, rawLit(r0.Vals[t.ColIdx("k")]))
	}
	n := r.Range(1, 3)
	var items []string
	for i := 0; i < n; i++ {
		name, c := g.oddName(t)
		if c == nil {
			c = &t.Cols[r.Intn(len(t.Cols))]
		}
		var v string
		switch x := r.Intn(10); {
		case x == 0: // wrong type
			v = []string{"'x'", "TRUE", "7"}[r.Intn(3)]
		case x == 1 && c.Type == TInt:
			v = "3000000000"
		case x <= 4 && c.Type == TVarchar:
			// exactly fits the first matching row
			ci := 0
			for j := range t.Cols {
				if t.Cols[j].Name == c.Name {
					ci = j
				}
			}
			first := -1
			for _, row := range t.Rows {
				if w != nil && !t.match(w, row) {
					continue
				}
				vals := append([]Val(nil), row.Vals...)
				vals[ci] = Str("")
				first = EncSize(t.Cols, vals)
				break
			}
			ln := r.Range(0, 40)
			if first >= 0 && MaxRowBytes-first > 0 {
				ln = MaxRowBytes - first - r.Intn(2)*r.Intn(12)
			}
			if ln < 0 {
				ln = 0
			}
			v = "'" + strings.Repeat("u", ln) + "'"
		default:
			switch c.Type {
			case TVarchar:
				v = "'" + strings.Repeat("v", r.Range(0, 20)) + "'"
			case TBool:
				v = []string{"TRUE", "FALSE"}[r.Intn(2)]
			default:
				v = fmt.Sprint(r.Intn(1000))
			}
		}
		if i > 0 && r.Chance(0.08) {
			items = append(items, items[r.Intn(len(items))])
			continue
		}
		items = append(items, name+" = "+v)
	}
	return fmt.Sprintf("UPDATE %s SET %s%s", t.Name, strings.Join(items, ", "), where)
}

// composeInsert builds an INSERT with a column list that may be permuted,
// partial, mis-cased, repeated or unknown, and 1-4 rows of which a later one
// may be invalid. Outcome unmodelled: C18 only.
func (g *gen) composeInsert(t *MTable) string {
	r := g.r
	var names []string
	var cols []*Col
	perm := r.Range(1, len(t.Cols))
	for i := 0; i < perm; i++ {
		name, c := g.oddName(t)
		if c == nil {
			c = &t.Cols[r.Intn(len(t.Cols))]
		}
		names = append(names, name)
		cols = append(cols, c)
	}
	nrows := r.Range(1, 4)
	bad := -1
	if r.Chance(0.5) {
		bad = r.Intn(nrows)
	}
	var rows []string
	for i := 0; i < nrows; i++ {
		var vals []string
		for _, c := range cols {
			var v string
			switch c.Type {
			case TVarchar:
				v = "'" + strings.Repeat("w", r.Range(0, 30)) + "'"
			case TBool:
				v = []string{"TRUE", "FALSE"}[r.Intn(2)]
			default:
				v = fmt.Sprint(r.Intn(100000))
			}
			if i == bad && r.Chance(0.5) {
				v = []string{"'x'", "TRUE", "5000000000", "'" + strings.Repeat("z", 420) + "'"}[r.Intn(4)]
			}
			vals = append(vals, v)
		}
		if i == bad && r.Chance(0.2) {
			vals = append(vals, "1")
		}
		rows = append(rows, "("+strings.Join(vals, ", ")+")")
	}
	list := ""
	if r.Chance(0.8) {
		list = " (" + strings.Join(names, ", ") + ")"
	}
	return fmt.Sprintf("INSERT INTO %s%s VALUES %s", t.Name, list, strings.Join(rows, ", "))
}

// composeSelect builds a SELECT clause by clause (select list, FROM with
// joins, WHERE, GROUP BY, ORDER BY, LIMIT/OFFSET), so that clause combinations
// no fixed template foresees are reached too. The statement may be ill-typed
// or refer to missing columns: it must return a result or an error.
func (g *gen) composeSelect(db *MDB, t, other *MTable) string {
	r := g.r
	type src struct {
		tbl   *MTable
		alias string
	}
	srcs := []src{{t, ""}}
	from := t.Name
	njoin := 0
	if r.Chance(0.35) {
		njoin = 1
		if r.Chance(0.25) {
			njoin = 2
		}
		srcs[0].alias = "a"
		from = t.Name + " a"
		for j := 0; j < njoin; j++ {
			jt := other
			if r.Chance(0.3) {
				jt = t
			}
			al := string(rune('b' + j))
			kind := []string{"JOIN", "INNER JOIN", "LEFT JOIN", "RIGHT JOIN"}[r.Intn(4)]
			lc := srcs[r.Intn(len(srcs))]
			oldRef := func() string { return lc.alias + "." + lc.tbl.Cols[r.Intn(len(lc.tbl.Cols))].Name }
			newRef := func() string { return al + "." + jt.Cols[r.Intn(len(jt.Cols))].Name }
			// operands of ON: usually one from each side, but any visible column may
			// stand on either side (both from the joined table, both from earlier
			// ones, reversed), with any comparison operator
			var a, b string
			switch x := r.Intn(20); {
			case x < 11:
				a, b = oldRef(), newRef()
			case x < 14:
				a, b = newRef(), oldRef()
			case x < 17:
				a, b = newRef(), newRef()
			default:
				a, b = oldRef(), oldRef()
			}
			cmp := "="
			if r.Chance(0.15) {
				cmp = []string{"!=", "<", "<=", ">", ">="}[r.Intn(5)]
			}
			on := fmt.Sprintf("%s %s %s", a, cmp, b)
			if r.Chance(0.1) {
				on = fmt.Sprintf("%s.k %s %d", al, []string{"<", ">=", "!="}[r.Intn(3)], r.Intn(5))
			}
			if r.Chance(0.12) {
				on += fmt.Sprintf(" %s %s = %s", []string{"AND", "OR"}[r.Intn(2)], oldRef(), newRef())
			}
			from += fmt.Sprintf(" %s %s %s ON %s", kind, jt.Name, al, on)
			srcs = append(srcs, src{jt, al})
		}
	}
	colRef := func() string {
		s := srcs[r.Intn(len(srcs))]
		c := s.tbl.Cols[r.Intn(len(s.tbl.Cols))].Name
		if s.alias != "" && r.Chance(0.85) {
			return s.alias + "." + c
		}
		return c
	}
	lit := func() string { return []string{"0", "1", "3", "'a'", "''", "TRUE", "FALSE", "100000"}[r.Intn(8)] }
	ops := []string{"=", "!=", "<", "<=", ">", ">="}
	// select list
	var list []string
	var plain []string
	agg := r.Chance(0.4)
	switch {
	case !agg && r.Chance(0.4):
		list = []string{"*"}
	default:
		n := r.Range(1, 3)
		for i := 0; i < n; i++ {
			if agg && (i > 0 || r.Chance(0.5)) {
				switch r.Intn(3) {
				case 0:
					list = append(list, "count(*)")
				case 1:
					list = append(list, "count("+colRef()+")")
				default:
					list = append(list, "avg("+colRef()+")")
				}
			} else {
				c := colRef()
				plain = append(plain, c)
				if r.Chance(0.2) {
					c += " AS z" + fmt.Sprint(i)
				}
				list = append(list, c)
			}
		}
	}
	q := "SELECT " + strings.Join(list, ", ") + " FROM " + from
	if r.Chance(0.45) {
		cond := fmt.Sprintf("%s %s %s", colRef(), ops[r.Intn(6)], lit())
		if r.Chance(0.3) {
			cond += []string{" AND ", " OR "}[r.Intn(2)] + fmt.Sprintf("%s %s %s", colRef(), ops[r.Intn(6)], []string{lit(), colRef()}[r.Intn(2)])
		}
		q += " WHERE " + cond
	}
	if agg && len(plain) > 0 && r.Chance(0.85) {
		gb := plain
		if r.Chance(0.15) {
			gb = []string{colRef()}
		}
		for i := range gb {
			if j := strings.LastIndex(gb[i], "."); j >= 0 && r.Chance(0.3) {
				gb[i] = gb[i][j+1:]
			}
		}
		q += " GROUP BY " + strings.Join(gb, ", ")
	}
	if r.Chance(0.4) {
		ob := colRef()
		if len(list) > 0 && list[0] != "*" && r.Chance(0.6) {
			ob = list[r.Intn(len(list))]
			if j := strings.Index(ob, " AS "); j >= 0 {
				ob = ob[j+4:]
			}
		}
		if !strings.ContainsAny(ob, "(*") {
			q += " ORDER BY " + ob + []string{"", " ASC", " DESC"}[r.Intn(3)]
			if r.Chance(0.25) {
				q += ", " + colRef()
			}
		}
	}
	if r.Chance(0.35) {
		if r.Chance(0.6) {
			lim := int64(r.Intn(6))
			if r.Chance(0.15) {
				// "no upper bound" idioms and other large operands (all within int64)
				lim = []int64{9223372036854775807, 9223372036854775806, 4294967296, 2147483648, 1000000}[r.Intn(5)]
			}
			q += fmt.Sprintf(" LIMIT %d", lim)
		}
		if r.Chance(0.7) {
			off := int64(r.Intn(8))
			if r.Chance(0.1) {
				off = []int64{9223372036854775807, 4294967296, 2147483647, 100000}[r.Intn(4)]
			}
			q += fmt.Sprintf(" OFFSET %d", off)
		}
	}
	return q
}

// genStmts appends n statements generated against g.m.
func (g *gen) genStmts(n int, small bool) []Stmt {
	pf := g.pf
	if pf.GiantRows > 0 && !pf.BulkStmts {
		// a statement may not dirty more pages than the cache holds
		small = true
	}
	var out []Stmt
	emit := func(s Stmt) {
		if e := g.apply(&s); e.OK {
			g.recs += e.NOps
		}
		out = append(out, s)
	}
	for len(out) < n {
		db, t := g.pickTable()
		if db == nil {
			// session without a database
			if len(g.m.Order) == 0 || g.r.Chance(0.3) {
				g.ndb++
				nm := g.newName(g.dbBase(), g.ndb)
				if g.r.Chance(0.3) {
					nm = strings.ToUpper(nm[:1]) + nm[1:]
				}
				emit(Stmt{Kind: KCreateDB, DB: nm})
			}
			emit(Stmt{Kind: KUse, DB: g.respell(g.m.Order[g.r.Intn(len(g.m.Order))])})
			continue
		}
		if len(g.m.Ghosts) > 0 && g.r.Chance(0.15) {
			gh := g.m.Ghosts[g.r.Intn(len(g.m.Ghosts))]
			switch g.r.Intn(4) {
			case 0, 1:
				emit(Stmt{Kind: KUse, DB: gh})
			case 2:
				emit(Stmt{Kind: KUse, DB: gh})
				emit(Stmt{Kind: KCreateDB, DB: gh})
			default:
				emit(Stmt{Kind: KCreateDB, DB: gh})
			}
			if g.r.Chance(0.4) {
				emit(Stmt{Kind: KRestart})
			}
			continue
		}
		maxTables := pf.Tables[1]
		if t == nil || (len(db.Tables) < pf.Tables[0]) {
			emit(g.stmtCreate())
			continue
		}
		ws := []int{pf.WCreate, pf.WInsert, pf.WUpdate, pf.WDelete, pf.WSelect, pf.WRestart, pf.WFail, pf.WUseSwitch, pf.WCreateDB, pf.WShowDB, pf.WBadDB, pf.WRaw}
		if len(db.Tables) >= maxTables {
			ws[0] = 0
		}
		if pf.BigInsertOnly {
			t = db.Tables[0]
		}
		pick := g.r.Pick(ws)
		if pf.GiantRows > 0 && len(t.Rows) >= pf.GiantRows {
			g.grown = true
		}
		if pf.GiantRows > 0 && len(t.Rows) < pf.GiantRows && !(g.grown && pf.BulkStmts) {
			pick = 1
		} else if pf.LongLog > 0 && g.recs < pf.LongLog && len(t.Cols) > 1 {
			// every row once more: one log record each
			u := g.stmtUpdate(db, t, false)
			u.Where = nil
			emit(u)
			continue
		}
		switch pick {
		case 0:
			emit(g.stmtCreate())
		case 1:
			nr := 1
			if g.r.Chance(0.5) {
				nr = g.r.Range(1, pf.MaxRows)
			}
			if pf.WideInserts {
				nr = pf.MaxRows
			}
			emit(g.stmtInsert(db, t, nr))
		case 2:
			emit(g.stmtUpdate(db, t, small))
		case 3:
			d := g.stmtDelete(db, t, small)
			if pf.BulkStmts && g.r.Chance(0.5) {
				d.Where = nil // every row
			}
			emit(d)
		case 4:
			emit(Stmt{Kind: KSelect, Table: t.Name})
		case 5:
			emit(Stmt{Kind: KRestart})
		case 6:
			emit(g.stmtFail(db, t))
		case 7:
			u := Stmt{Kind: KUse, DB: g.respell(g.m.Order[g.r.Intn(len(g.m.Order))])}
			if pf.OpenFailP > 0 && strings.ToLower(u.DB) != g.m.Cur && g.r.Chance(pf.OpenFailP) {
				// the open of the log (mostly) or of the data file fails once:
				// the USE is refused, the session goes on with the database it
				// had, and usually tries again a little later
				u.OpenFail = "log"
				if g.r.Chance(0.25) {
					u.OpenFail = "data"
				}
				emit(u)
				if g.r.Chance(0.8) {
					if g.r.Chance(0.4) {
						emit(g.stmtInsert(db, t, 1))
					}
					emit(Stmt{Kind: KUse, DB: u.DB})
				}
				continue
			}
			emit(u)
		case 8:
			if len(g.m.Order) < pf.DBs[1] {
				g.ndb++
				nm := g.newName(g.dbBase(), g.ndb)
				if g.r.Chance(0.3) {
					nm = strings.ToUpper(nm)
				}
				emit(Stmt{Kind: KCreateDB, DB: nm})
				if g.r.Chance(0.6) {
					emit(Stmt{Kind: KUse, DB: nm})
				}
			}
		case 9:
			emit(Stmt{Kind: KShowDB})
		case 10:
			if g.r.Chance(0.2) {
				// names that are paths: nothing of the kind may be created or selected
				base := g.m.Order[g.r.Intn(len(g.m.Order))]
				// (the last two are not valid UTF-8 - see rawName -: lower-casing maps
				// every bad byte to U+FFFD, so such names are not names of their own)
				emit(Stmt{Kind: KCreateDB, DB: []string{"\"" + base + "/sub\"", "\"" + base + "/tbl\"", "\"../x\"", "\"a/b\"", "\"" + base + "\ue0ff\"", "\"a\ue0feb\""}[g.r.Intn(6)]})
			} else if g.r.Chance(0.5) {
				emit(Stmt{Kind: KUse, DB: "nosuchdb"})
			} else {
				emit(Stmt{Kind: KCreateDB, DB: g.m.Order[g.r.Intn(len(g.m.Order))]})
			}
		case 11:
			emit(g.stmtRaw(db, t))
		}
	}
	return out
}

func (g *gen) genDirectives(stmts []Stmt, mode string) []Directive {
	var ds []Directive
	n := len(stmts)
	for i := range stmts {
		switch mode {
		case "none":
		case "each":
			ds = append(ds, Directive{Stmt: i, At: -1, Kind: "advance", Ms: tickPeriodMs})
		case "random":
			if g.r.Chance(0.35) {
				ds = append(ds, Directive{Stmt: i, At: -1, Kind: "advance", Ms: g.r.Range(20, 260)})
			}
		case "burst":
			if i < n/2 {
				ds = append(ds, Directive{Stmt: i, At: -1, Kind: "advance", Ms: tickPeriodMs})
			}
		case "late":
			if i >= n/2 && g.r.Chance(0.5) {
				ds = append(ds, Directive{Stmt: i, At: -1, Kind: "advance", Ms: g.r.Range(50, 150)})
			}
		case "sparse":
			if g.r.Chance(0.08) {
				ds = append(ds, Directive{Stmt: i, At: -1, Kind: "advance", Ms: g.r.Range(100, 400)})
			}
		}
		if g.pf.StallP > 0 && g.r.Chance(g.pf.StallP) {
			at := g.r.Intn(8)
			if g.r.Chance(0.6) {
				at = g.r.Intn(80)
			}
			ds = append(ds, Directive{Stmt: i, At: at, Kind: "advance", Ms: g.r.Range(100, 1100)})
		}
	}
	return ds
}

func (g *gen) pickKnobs() Knobs {
	pf := g.pf
	k := Knobs{CheckEvery: pf.CheckEvery, SparseObserve: pf.GiantRows > 0, TreeEvery: pf.TreeEvery, LRUReverse: g.r.Chance(0.5), ForceFlush: pf.ForceFlush}
	if len(pf.CacheCaps) > 0 {
		k.CacheCap = pf.CacheCaps[g.r.Intn(len(pf.CacheCaps))]
	}
	if k.CacheCap > 0 && k.CacheCap < 1000 && !pf.NoForceFlush && (pf.Prop != "C15" || g.r.Chance(0.5)) {
		// C15 withholds ticks in half of its runs so that dirty pages pile up until the cache refuses
		k.ForceFlush = true
	}
	if pf.Prop == "C15" && !k.ForceFlush {
		k.CacheOnly = true
	}
	if g.r.Chance(0.2) {
		k.BiasKey = []uint32{200, 250, 65500, 65530, 16777190, 1<<31 - 40, 1 << 20, 1<<32 - 30, 1<<32 - 3}[g.r.Intn(9)]
	}
	if g.r.Chance(0.2) {
		k.BiasLSN = []uint64{230, 65500, 65530, 16777190, 1<<32 - 60, 1<<32 - 5, 1 << 40, 1<<31 - 30}[g.r.Intn(8)]
	}
	if (pf.Prop == "C12" || pf.Prop == "C01" || pf.Prop == "C16") && pf.Boundary == 0 && g.r.Chance(0.12) {
		// no crash images in these runs, so a 16 MiB sparse file costs little
		k.BiasOffset = []uint64{1<<24 - 3*4096, 1<<24 - 4096, 1 << 24, 1<<24 + 4096, 1<<24 - 12*4096}[g.r.Intn(5)]
	}
	if pf.LazyWakeP > 0 && g.r.Chance(pf.LazyWakeP) {
		k.LazyWake = true
		if g.r.Chance(0.12) {
			k.SlowWriteAt = g.r.Range(1, 30)
		}
	}
	if len(pf.FlushMargins) > 0 {
		k.FlushMargin = pf.FlushMargins[g.r.Intn(len(pf.FlushMargins))]
	}
	if pf.QuietP > 0 && g.r.Chance(pf.QuietP) {
		k.Quiet = true
	}
	return k
}

// genCont makes the continuation plan for an image taken when the model was m.
func (g *gen) genCont(m *Model, depth int) *Plan {
	pf := g.pf
	sub := &gen{r: g.r, pf: pf, m: m.Clone(), tags: map[string]int64{}, ntab: g.ntab + 100*depth, ndb: g.ndb + 10*depth}
	for k, v := range g.tags {
		sub.tags[k] = v + 1000*int64(depth) // fresh tags, never colliding with rows of a cut-off statement
	}
	n := g.r.Range(pf.ContStmts[0], pf.ContStmts[1])
	cont := &Plan{}
	if sub.m.CurDB() == nil || n == 0 {
		return cont
	}
	small := true
	cont.Stmts = sub.genStmts(n, small)
	mode := pf.TickModes[g.r.Intn(len(pf.TickModes))]
	cont.Directives = sub.genDirectives(cont.Stmts, mode)
	if depth < pf.MaxDepth && g.r.Chance(pf.NestP) {
		// nested crash: at a boundary of the continuation, or inside the flush that ends recovery
		if g.r.Chance(0.5) || pf.FlushImgs == 0 {
			// replay the continuation on a scratch model to know the state at the boundary
			m2 := m.Clone()
			at := g.r.Intn(len(cont.Stmts))
			for i := 0; i <= at; i++ {
				if e := m2.Predict(&cont.Stmts[i]); e.OK {
					e.Apply(m2)
				}
			}
			g2 := &gen{r: g.r, pf: pf, m: m2, tags: sub.tags, ntab: sub.ntab, ndb: sub.ndb}
			cont.Images = append(cont.Images, ImageSel{Site: SiteBoundary, Stmt: at, Cont: g2.genCont(m2, depth+1)})
		} else {
			cont.Images = append(cont.Images, ImageSel{Site: SiteFlush, Stmt: -2, N: 0, SubsetSeed: g.r.U64() | 1, Cont: g.genCont(m, depth+1), OnlyStrict: pf.StrictFlushOnly})
		}
	}
	return cont
}

// cellsEver estimates how many cells a table's tree has ever received: live
// rows plus, as a lower bound for deleted ones, the gap to its largest tag.
func cellsEver(m *Model, t *MTable) int {
	n := len(t.Rows)
	for _, r := range t.Rows {
		if v := r.Vals[t.ColIdx("k")]; int(v.I)+1 > n && v.K == "i" {
			n = int(v.I) + 1
		}
	}
	return n
}

// seedForSubsetMode returns a subset seed whose first draw selects the given
// mode of captureFlush (1 = all pages, no header).
func seedForSubsetMode(r *Rng, mode uint64) uint64 {
	for {
		s := r.U64() | 1
		t := s
		if splitmix(&t)%4 == mode {
			return s
		}
	}
}

// hotCont: continuation that inserts into the named table right after
// recovery and crashes again at once (no tick in between), then goes on.
func (g *gen) hotCont(m *Model, table string) *Plan {
	db := m.CurDB()
	if db == nil {
		return nil
	}
	t := db.Table(table)
	if t == nil && len(db.Tables) > 0 {
		t = db.Tables[g.r.Intn(len(db.Tables))]
	}
	if t == nil {
		return nil
	}
	sub := &gen{r: g.r, pf: g.pf, m: m.Clone(), tags: map[string]int64{}, ntab: g.ntab + 100, ndb: g.ndb + 10}
	for k, v := range g.tags {
		sub.tags[k] = v + 1000
	}
	sdb := sub.m.CurDB()
	st := sub.stmtInsert(sdb, sdb.Table(t.Name), g.r.Range(1, 3))
	e := sub.m.Predict(&st)
	if !e.OK {
		return nil
	}
	e.Apply(sub.m)
	cont := &Plan{Stmts: []Stmt{st}}
	g2 := &gen{r: g.r, pf: g.pf, m: sub.m, tags: sub.tags, ntab: sub.ntab, ndb: sub.ndb}
	cont.Images = []ImageSel{{Site: SiteBoundary, Stmt: 0, Cont: g2.genCont(sub.m, 2)}}
	return cont
}

// Generate builds the plan for one seed.
func Generate(pf *Profile, seed uint64) *Plan {
	r := NewRng(seed)
	g := &gen{r: r, pf: pf, m: NewModel(), tags: map[string]int64{}}
	p := &Plan{Prop: pf.Prop, Seed: seed, Tier: pf.Tier}
	pf.fat = pf.FatP > 0 && r.Chance(pf.FatP)
	p.Knobs = g.pickKnobs()
	n := r.Range(pf.Stmts[0], pf.Stmts[1])
	small := p.Knobs.CacheCap > 0 && p.Knobs.CacheCap < 1000
	// models at every boundary are needed for continuations: generate statements
	// one by one and remember clones where images will be taken
	var stmts []Stmt
	snap := map[int]*Model{}
	// choose image positions up front (indices may exceed n; clipped later)
	want := map[int]bool{}
	for i := 0; i < pf.Boundary+pf.WalStmts+pf.FlushImgs+4; i++ {
		want[r.Intn(n+1)] = true
	}
	for len(stmts) < n {
		chunk := g.genStmts(1, small)
		for _, s := range chunk {
			stmts = append(stmts, s)
			snap[len(stmts)-1] = nil
		}
	}
	// second pass for snapshots (cheap: replay on a fresh model)
	m := NewModel()
	models := make([]*Model, len(stmts)+1) // models[i] = state before statement i
	noImages := pf.Boundary+pf.WalStmts+pf.FlushImgs == 0
	for i := range stmts {
		if !noImages { // (a giant plan takes no images: 700 clones of 40 000 rows are gigabytes)
			models[i] = m.Clone()
		}
		if e := m.Predict(&stmts[i]); e.OK {
			e.Apply(m)
		}
	}
	models[len(stmts)] = m.Clone()
	p.Stmts = stmts
	mode := pf.TickModes[r.Intn(len(pf.TickModes))]
	p.Directives = g.genDirectives(stmts, mode)
	if r.Chance(pf.FinalClose) {
		p.Final = "close"
	}
	// ---- images ----
	for b := 0; b < pf.Boundary; b++ {
		i := r.Intn(len(stmts))
		if b == 0 && p.Final == "close" {
			i = len(stmts) // clean shutdown then crash
		}
		st := models[len(stmts)]
		if i < len(stmts) {
			st = models[i+1]
		}
		ghost := ""
		if r.Chance(0.06) {
			ghost = []string{"aaa", "ghost1", "zzz", "db0", "lostfound"}[r.Intn(5)]
			// the continuation knows the half-made name: it selects it (refused,
			// nothing may change), creates it, restarts
			st = st.Clone()
			st.Ghosts = append(st.Ghosts, ghost)
		}
		sel := ImageSel{Site: SiteBoundary, Stmt: i, Cont: g.genCont(st, 1), GhostDir: ghost}
		p.Images = append(p.Images, sel)
	}
	if pf.WalStmts > 0 {
		// prefer statements that append many records: multi-row statements and,
		// most of all, statements refused at a later row (rows + compensation)
		var cands []int
		exps := map[int]*Expect{}
		for i, s := range stmts {
			if pf.LastStmtsOnly > 0 && i < len(stmts)-pf.LastStmtsOnly {
				continue
			}
			if s.Kind == KInsert || s.Kind == KUpdate || s.Kind == KDelete {
				st := s
				e := models[i].Predict(&st)
				if !e.OK && e.FailAt <= 0 {
					continue // refused before its first change: nothing is logged
				}
				if pf.LastStmtsOnly > 0 && (e.NOps > 16 || e.FailAt > 8) {
					continue // every prefix of the statement is an admissible state, each a copy of the table
				}
				exps[i] = e
				cands = append(cands, i)
				if e.NOps > 1 {
					cands = append(cands, i, i)
				}
				if e.FailAt > 0 {
					cands = append(cands, i, i, i, i)
				}
				// statements during which the table's cell count crosses a
				// structural threshold (root leaf split at 9 cells, internal root
				// split at 1165, first second-level split at 1749) append a
				// catalog record between their row records
				if db := models[i].CurDB(); db != nil && s.Kind == KInsert {
					if t := db.Table(s.Table); t != nil {
						before, after := cellsEver(models[i], t), cellsEver(models[i], t)+e.NOps
						for _, th := range []int{9, 1165, 1749} {
							if before < th && after >= th {
								w := 6
								if th > 9 {
									w = 60
								}
								for k := 0; k < w; k++ {
									cands = append(cands, i)
								}
							}
						}
					}
				}
			}
		}
		// an UPDATE that changed two or more rows before it was refused logs
		// its changes and then their compensations, walking back over the same
		// pages: the longest and oddest batch a statement can append. Such
		// statements are few (one plan in ten has one), so when a plan has one
		// it usually gets the first lot of log cuts.
		var late []int
		for _, i := range cands {
			if e := exps[i]; e.FailAt >= 2 && stmts[i].Kind == KUpdate && (len(late) == 0 || late[len(late)-1] != i) {
				late = append(late, i)
			}
		}
		used := map[int]bool{}
		for c := 0; c < pf.WalStmts && len(cands) > 0; c++ {
			i := cands[r.Intn(len(cands))]
			if c == 0 && len(late) > 0 && r.Chance(0.8) {
				i = late[r.Intn(len(late))]
			}
			if used[i] {
				continue
			}
			used[i] = true
			e := exps[i]
			// records the statement appends: one per row operation, twice that
			// for a statement that takes its rows back, plus catalog records of
			// root moves; three log events (length, body, and the final fsync) each
			recs := e.NOps + 2
			if e.FailAt > 0 {
				recs = 2*e.FailAt + 3
			}
			if recs > 60 {
				recs = 60
			}
			cont := g.genCont(models[i], 1) // generated against the before-state; valid for every prefix
			nev := recs * 3
			step := 1
			if nev > 45 {
				step = 2
			}
			if pf.LastStmtsOnly > 0 {
				// long-log plans: each image is megabytes of files and a recovery
				// over the whole log - a few cuts per statement
				step = nev/3 + 1
			}
			for ev := r.Intn(step); ev < nev; ev += step {
				for _, cs := range []bool{false, true} {
					p.Images = append(p.Images, ImageSel{Site: SiteWal, Stmt: i, N: ev, CutAtSync: cs, Cont: cont})
				}
			}
		}
	}
	if pf.FlushImgs > 0 {
		// flushes happen at think-time ticks, inside CREATE TABLE, at restart and at the final close
		var cands []int
		for _, d := range p.Directives {
			if d.At < 0 {
				cands = append(cands, d.Stmt)
			}
		}
		for i, s := range stmts {
			if s.Kind == KCreate || s.Kind == KRestart {
				cands = append(cands, i, i)
			}
		}
		if p.Final == "close" {
			cands = append(cands, len(stmts), len(stmts))
		}
		// a tick right after a refused statement: whatever the refusal left
		// behind in the cache goes to the file now (refuse-then-tear)
		refusedBefore := func(i int) bool {
			if i < 1 || i > len(stmts) {
				return false
			}
			s := stmts[i-1]
			switch s.Kind {
			case KInsert, KUpdate, KDelete, KCreate:
				e := models[i-1].Predict(&s)
				return !e.OK && !e.Unchecked
			}
			return false
		}
		for _, d := range p.Directives {
			if d.At < 0 && refusedBefore(d.Stmt) {
				cands = append(cands, d.Stmt, d.Stmt, d.Stmt)
			}
		}
		for c := 0; c < pf.FlushImgs && len(cands) > 0; c++ {
			i := cands[r.Intn(len(cands))]
			st := models[len(stmts)]
			if i < len(stmts) {
				st = models[i]
				if stmts[i].Kind == KCreate {
					st = models[i+1]
				}
			}
			sel := ImageSel{Site: SiteFlush, Stmt: i, N: r.Intn(2), SubsetSeed: r.U64() | 1, Cont: g.genCont(st, 1), OnlyStrict: pf.StrictFlushOnly}
			if r.Chance(0.1) {
				sel.SubsetSeed = 0
				sel.All = true
			} else if pf.EnumFlush && r.Chance(0.5) {
				sel.Enumerate = true
			}
			if refusedBefore(i) && i < len(stmts) && stmts[i].Kind != KCreate && r.Chance(0.6) {
				// every page of that flush but not the header; after recovery
				// the first thing is an INSERT into the table the refused
				// statement named, and the process dies again at once
				sel.N, sel.All, sel.Enumerate = 0, false, false
				sel.SubsetSeed = seedForSubsetMode(r, 1)
				if hc := g.hotCont(st, stmts[i-1].Table); hc != nil {
					sel.Cont = hc
				}
			}
			p.Images = append(p.Images, sel)
		}
	}
	markOnce(p, NewRng(seed^0x0ce))
	return p
}

// markOnce: half of the images (at every depth) are recovered once only
// before their continuation runs (ImageSel.Once).
func markOnce(p *Plan, r *Rng) {
	if p == nil {
		return
	}
	seen := map[*Plan]bool{}
	var walk func(p *Plan)
	walk = func(p *Plan) {
		if p == nil || seen[p] {
			return
		}
		seen[p] = true
		for i := range p.Images {
			p.Images[i].Once = r.Chance(0.5)
			walk(p.Images[i].Cont)
		}
	}
	walk(p)
}
