package core

import (
	"encoding/json"
	"fmt"
	"os"

	"github.com/mk6i/mkdb/storage"
)

// Exported helpers for the in-package overlay drivers of cmd/csvimport (C19)
// and cmd/console (C20), which are compiled into those packages' test binaries.

// DriverViolation is a violation found by a driver, with the explicit case
// (input, chunking, faults) that reproduces it.
type DriverViolation struct {
	Prop     string            `json:"prop"`
	Oracle   string            `json:"oracle"`
	Features map[string]string `json:"features"`
	Detail   string            `json:"detail"`
	Seed     uint64            `json:"seed"`
	Case     json.RawMessage   `json:"case"`
}

func (v *DriverViolation) AsViolation() *Violation {
	return &Violation{Prop: v.Prop, Oracle: v.Oracle, Features: v.Features, Detail: v.Detail}
}

// DriverResult is what one shard of a driver reports (one JSON line prefixed SIMRESULT).
type DriverResult struct {
	Prop         string             `json:"prop"`
	Evals        int                `json:"evals"`
	Stats        map[string]int64   `json:"stats"`
	Fingerprints []string           `json:"fingerprints"`
	Samples      []interface{}      `json:"samples"`
	Violations   []*DriverViolation `json:"violations"`
	Harness      string             `json:"harness,omitempty"`
	Seeds        [2]uint64          `json:"seeds"`
	Hash         string             `json:"hash"`
}

func (r *DriverResult) Print() {
	b, _ := json.Marshal(r)
	fmt.Fprintf(os.NewFile(3, "result"), "SIMRESULT %s\n", b)
}

// ---- world facade ----

func (w *World) SetMonitors(m Monitors) { w.mon = m }

// ObservedTable is what SELECT * returned.
type ObservedTable struct {
	Cols []string
	IDs  []uint32
	Rows [][]Val
}

// Observe runs SELECT * FROM table through the real executor.
func (w *World) Observe(rs *storage.RelationService, table string) (*ObservedTable, error) {
	o, err := w.observe(rs, table)
	if err != nil {
		return nil, err
	}
	return &ObservedTable{Cols: o.Cols, IDs: o.IDs, Rows: o.Rows}, nil
}

// Guarded runs f under recover and reports a panic as text.
func (w *World) Guarded(f func()) (panicMsg, panicLoc string) {
	m, l, v := w.guarded(f)
	if v != nil {
		return "aborted: " + v.Detail, ""
	}
	return m, l
}

// KillStoreOf is process death for one service (nothing flushed).
func (w *World) KillStoreOf(rs *storage.RelationService) {
	if st := w.byFS[rs.VerifStore()]; st != nil {
		w.kill(st)
	}
	w.closeWal(rs)
}

// Violation returns the first violation a monitor raised inside a hook.
func (w *World) MonitorViolation() *Violation { return w.Viol }

// SetRecovery marks the world as running startup recovery (hooks relax the lock monitor).
func (w *World) SetRecovery(on bool) { w.inRecovery = on }

// StatsCopy returns a copy of the counters.
func (w *World) StatsCopy() map[string]int64 {
	out := map[string]int64{}
	for k, v := range w.Stats {
		out[k] = v
	}
	return out
}

func (w *World) HashString() string { return fmt.Sprintf("%016x", uint64(w.Hash)) }

// EvCount is the number of yield points seen in the current statement bracket.
func (w *World) EvCount() int { return w.evIdx }
