// normhooks keeps the lock hooks of the storage package attached to the mutex
// calls they announce.
//
// The kernel of the simulator decides at the hook `verifLock(f, want...)` who
// gets the store lock next, and it takes the lock for released at
// `verifLock(f, rel...)`. That is only right if nothing stands between a hook
// and the mutex call it belongs to: a statement placed between the "want" hook
// and `mtx.RLock()` really runs BEFORE the goroutine may block in RLock, and a
// statement between `mtx.RUnlock()` and the "released" hook really runs AFTER
// the lock is free. On the unchanged tree the lines are adjacent and this
// program writes an empty overlay. If an edit of the product code has put
// statements between them, the hook is moved next to the mutex call in a copy
// of the file, and the copy is compiled instead (go build -overlay): the
// product statements keep their order, only the no-op hook line moves.
//
// usage: normhooks <repo> <outdir>   -> writes <outdir>/overlay_norm.json
package main

import (
	"bytes"
	"encoding/json"
	"fmt"
	"go/ast"
	"go/format"
	"go/parser"
	"go/token"
	"os"
	"path/filepath"
	"strings"
)

func callName(s ast.Stmt) (recv string, sel string, args []ast.Expr, ok bool) {
	es, isExpr := s.(*ast.ExprStmt)
	if !isExpr {
		return
	}
	c, isCall := es.X.(*ast.CallExpr)
	if !isCall {
		return
	}
	switch f := c.Fun.(type) {
	case *ast.Ident:
		return "", f.Name, c.Args, true
	case *ast.SelectorExpr:
		var b bytes.Buffer
		format.Node(&b, token.NewFileSet(), f.X)
		return b.String(), f.Sel.Name, c.Args, true
	}
	return
}

func hookKind(s ast.Stmt) string {
	_, name, args, ok := callName(s)
	if !ok || name != "verifLock" || len(args) != 2 {
		return ""
	}
	id, isIdent := args[1].(*ast.Ident)
	if !isIdent {
		return ""
	}
	switch id.Name {
	case "verifLockWantShared", "verifLockWantExcl":
		return "want"
	case "verifLockRelShared", "verifLockRelExcl":
		return "rel"
	}
	return ""
}

func mutexKind(s ast.Stmt) string {
	recv, name, _, ok := callName(s)
	if !ok || !strings.HasSuffix(recv, ".mtx") {
		return ""
	}
	switch name {
	case "RLock", "Lock":
		return "lock"
	case "RUnlock", "Unlock":
		return "unlock"
	}
	return ""
}

// fix re-orders one statement list; returns the number of hooks moved.
func fix(list []ast.Stmt) ([]ast.Stmt, int) {
	moved := 0
	for i := 0; i < len(list); i++ {
		if hookKind(list[i]) == "want" {
			for j := i + 1; j < len(list); j++ {
				if hookKind(list[j]) != "" {
					break
				}
				if mutexKind(list[j]) == "lock" {
					if j > i+1 {
						h := list[i]
						copy(list[i:j-1], list[i+1:j])
						list[j-1] = h
						moved++
					}
					break
				}
			}
		}
		if mutexKind(list[i]) == "unlock" {
			for j := i + 1; j < len(list); j++ {
				if mutexKind(list[j]) != "" {
					break
				}
				if hookKind(list[j]) == "rel" {
					if j > i+1 {
						h := list[j]
						copy(list[i+2:j+1], list[i+1:j])
						list[i+1] = h
						moved++
					}
					break
				}
				if hookKind(list[j]) != "" {
					break
				}
			}
		}
	}
	return list, moved
}

func main() {
	if len(os.Args) != 3 {
		fmt.Fprintln(os.Stderr, "usage: normhooks <repo> <outdir>")
		os.Exit(2)
	}
	repo, out := os.Args[1], os.Args[2]
	os.MkdirAll(out, 0755)
	replace := map[string]string{}
	files, _ := filepath.Glob(filepath.Join(repo, "storage", "*.go"))
	for _, p := range files {
		base := filepath.Base(p)
		if strings.HasSuffix(base, "_test.go") || strings.HasPrefix(base, "verif_") {
			continue
		}
		src, err := os.ReadFile(p)
		if err != nil {
			fmt.Fprintln(os.Stderr, "normhooks:", err)
			os.Exit(2)
		}
		if !bytes.Contains(src, []byte("verifLock(")) {
			continue
		}
		fset := token.NewFileSet()
		f, err := parser.ParseFile(fset, p, src, parser.ParseComments)
		if err != nil {
			// the build that follows reports it
			continue
		}
		total := 0
		ast.Inspect(f, func(n ast.Node) bool {
			if b, ok := n.(*ast.BlockStmt); ok {
				var m int
				b.List, m = fix(b.List)
				total += m
			}
			return true
		})
		if total == 0 {
			continue
		}
		// comments are dropped from the copy: moving statements under a comment
		// map makes the printer misplace them, and the copy is only compiled
		f.Comments = nil
		var buf bytes.Buffer
		// keep build constraints of the original, if any
		for _, line := range strings.Split(string(src), "\n") {
			if strings.HasPrefix(line, "//go:build") {
				buf.WriteString(line + "\n\n")
			}
			if strings.HasPrefix(line, "package ") {
				break
			}
		}
		if err := format.Node(&buf, fset, f); err != nil {
			fmt.Fprintln(os.Stderr, "normhooks:", err)
			os.Exit(2)
		}
		cp := filepath.Join(out, "norm_"+base)
		if err := os.WriteFile(cp, buf.Bytes(), 0644); err != nil {
			fmt.Fprintln(os.Stderr, "normhooks:", err)
			os.Exit(2)
		}
		abs, _ := filepath.Abs(cp)
		replace[p] = abs
		fmt.Printf("NOTE: %d lock hook(s) in %s were not next to their mutex call; compiled from a copy with the hook lines re-attached\n", total, p)
	}
	js, _ := json.MarshalIndent(map[string]any{"Replace": replace}, "", " ")
	if err := os.WriteFile(filepath.Join(out, "overlay_norm.json"), js, 0644); err != nil {
		fmt.Fprintln(os.Stderr, "normhooks:", err)
		os.Exit(2)
	}
}
