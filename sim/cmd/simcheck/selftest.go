package main

import (
	"fmt"
	"os"
	"os/exec"
	"strconv"
	"strings"
	"sync"
)

// selftest <prop> [nseeds]: every seed is executed in fresh processes under
// GOMAXPROCS 1, 4 and 16; the event-log hashes must agree.
func selftest(args []string) int {
	if len(args) < 1 {
		usage()
	}
	prop := args[0]
	n := 32
	if len(args) > 1 {
		n, _ = strconv.Atoi(args[1])
	}
	tier := "quick"
	if len(args) > 2 {
		tier = args[2]
	}
	self, _ := os.Executable()
	type key struct {
		seed uint64
	}
	var mu sync.Mutex
	bad := 0
	fatal := 0
	sem := make(chan struct{}, 16)
	var wg sync.WaitGroup
	for i := 0; i < n; i++ {
		seed := uint64(777000 + i)
		wg.Add(1)
		sem <- struct{}{}
		go func() {
			defer wg.Done()
			defer func() { <-sem }()
			var hashes []string
			for _, procs := range []string{"1", "4", "16", "2"} {
				cmd := exec.Command(self, "hash", prop, tier, fmt.Sprint(seed))
				cmd.Env = append(os.Environ(), "GOMAXPROCS="+procs)
				out, err := cmd.Output()
				if err != nil {
					hashes = append(hashes, "ERR:"+err.Error())
					continue
				}
				hashes = append(hashes, strings.TrimSpace(string(out)))
			}
			same := true
			for _, h := range hashes {
				if h != hashes[0] {
					same = false
				}
			}
			if !same {
				mu.Lock()
				bad++
				fmt.Printf("NONDETERMINISTIC seed %d: %v\n", seed, hashes)
				mu.Unlock()
			} else if strings.HasPrefix(hashes[0], "ERR") {
				// the in-process run died the same way in all four processes
				// (a crash image that kills recovery fatally): deterministic
				mu.Lock()
				fatal++
				mu.Unlock()
			}
		}()
	}
	wg.Wait()
	fmt.Printf("selftest %s: %d seeds x 4 processes (GOMAXPROCS 1/4/16/2), %d mismatches, %d seeds died identically in all four (fatal recovery of a crash image)\n", prop, n, bad, fatal)
	if bad > 0 {
		return 2
	}
	return 0
}
