package main

import (
	"bufio"
	"encoding/json"
	"fmt"
	"os"
	"runtime"
	"runtime/debug"
	"sync"
	"sync/atomic"
	"syscall"
	"time"

	"verif/sim/core"
)

// Job is one unit of work for a worker process.
type Job struct {
	ID       int               `json:"id"`
	Prop     string            `json:"prop"`
	Tier     string            `json:"tier"`
	Seed     uint64            `json:"seed"`
	Plan     *core.Plan        `json:"plan,omitempty"` // explicit plan (minimisation / replay); nil = generate from seed
	Fatal    map[string]string `json:"fatal,omitempty"`
	Mode     string            `json:"mode,omitempty"` // "" normal, "c13sweep", "c16diff", "lrudrive"
	WantPlan bool              `json:"want_plan,omitempty"`
	Race     bool              `json:"race,omitempty"` // run on a worker built with the race detector (tag verifrace)
}

// Msg is one line from worker to coordinator.
type Msg struct {
	ID      int             `json:"id"`
	Journal string          `json:"j,omitempty"`
	Hang    string          `json:"hang,omitempty"`
	OOM     string          `json:"oom,omitempty"`
	Result  *core.RunResult `json:"result,omitempty"`
	Plan    *core.Plan      `json:"plan,omitempty"`
	Sample  string          `json:"sample,omitempty"`
}

var outMu sync.Mutex

var journalCalls int

func send(w *bufio.Writer, m *Msg) {
	b, _ := json.Marshal(m)
	outMu.Lock()
	w.Write(b)
	w.WriteByte('\n')
	w.Flush()
	outMu.Unlock()
}

func workerMain() {
	out := bufio.NewWriterSize(realStdout, 1<<16)
	silenceStdout()
	if devnull, err := os.OpenFile(os.DevNull, os.O_WRONLY, 0); err == nil {
		os.Stderr = devnull // mkdb's scanner prints lexical errors there; runtime fatals still go to fd 2
	}
	debug.SetMaxStack(48 << 20)
	// an allocation sized by a garbage length field must die at once, inside
	// the step that made it (the coordinator classifies the death from the
	// runtime's "out of memory" message and the journaled step)
	if !core.RaceMode {
		// (the race detector reserves terabytes of address space)
		lim := syscall.Rlimit{Cur: 3 << 30, Max: 3 << 30}
		syscall.Setrlimit(syscall.RLIMIT_AS, &lim)
	}
	debug.SetGCPercent(200)
	debug.SetMemoryLimit(768 << 20)
	scratch := os.Getenv("SIM_SCRATCH")
	if scratch == "" {
		scratch, _ = os.MkdirTemp(scratchBase(), "simw")
	}
	os.MkdirAll(scratch, 0755)

	var curJob int64 = -1
	var curKey atomic.Value
	curKey.Store("")
	// watchdog: progress and heap
	go func() {
		last := int64(-1)
		stuck := 0
		for {
			time.Sleep(2 * time.Second)
			if atomic.LoadInt64(&curJob) < 0 {
				stuck = 0
				continue
			}
			p := core.ReadProgress()
			if p == last {
				stuck++
			} else {
				stuck = 0
			}
			last = p
			if stuck >= 10 { // 20 s without a single hook event
				send(out, &Msg{ID: int(atomic.LoadInt64(&curJob)), Hang: curKey.Load().(string)})
				os.Exit(3)
			}
		}
	}()

	in := bufio.NewReaderSize(os.Stdin, 1<<20)
	dec := json.NewDecoder(in)
	for {
		var job Job
		if err := dec.Decode(&job); err != nil {
			return
		}
		atomic.StoreInt64(&curJob, int64(job.ID))
		env := &core.Env{
			Scratch: scratch,
			Fatal:   job.Fatal,
			Journal: func(key string) {
				// a step that decoded garbage may have left gigabytes of dead heap
				// behind; under the address-space limit the NEXT step would then die
				// for it. Start every journaled step with a small heap.
				// The soft memory limit (set at start-up) makes the collector
				// run before the heap grows past it; as a backstop the heap is
				// looked at every 64th step.
				if journalCalls++; journalCalls%64 == 0 {
					var ms runtime.MemStats
					runtime.ReadMemStats(&ms)
					if ms.HeapAlloc > 256<<20 || ms.HeapSys-ms.HeapReleased > 1<<30 {
						runtime.GC()
						debug.FreeOSMemory()
					}
				}
				curKey.Store(key)
				send(out, &Msg{ID: job.ID, Journal: key})
			},
		}
		res, plan := runJob(&job, env)
		if core.RaceMode {
			collectRaces(&job, res)
		}
		msg := &Msg{ID: job.ID, Result: res}
		if job.WantPlan {
			msg.Plan = plan
		}
		send(out, msg)
		atomic.StoreInt64(&curJob, -1)
		os.RemoveAll(scratch)
		os.MkdirAll(scratch, 0755)
	}
}

func runJob(job *Job, env *core.Env) (*core.RunResult, *core.Plan) {
	defer func() {
		if r := recover(); r != nil {
			fmt.Fprintf(os.NewFile(2, "stderr"), "HARNESS PANIC in job %d: %v\n%s\n", job.ID, r, debug.Stack())
			os.Exit(5)
		}
	}()
	plan := job.Plan
	if plan == nil {
		prof := job.Prop
		if job.Race && prof == "C13" {
			prof = "C13R"
		}
		pf := core.ProfileFor(prof, job.Tier, job.Seed)
		plan = core.Generate(pf, job.Seed)
	}
	switch job.Mode {
	case "c13sweep":
		return core.RunC13Sweep(plan, env), plan
	case "c16diff":
		return core.RunC16Diff(plan, env), plan
	case "lrudrive":
		return core.RunLRUDrive(job.Seed, job.Tier == "thorough", env), plan
	}
	return core.RunPlan(plan, env), plan
}
