package main

import (
	"bufio"
	"encoding/json"
	"fmt"
	"os"
	"os/exec"
	"path/filepath"
	"runtime"
	"sort"
	"strconv"
	"strings"
	"sync"
	"time"

	"verif/sim/core"
)

var driverProps = map[string]propInfo{
	"C19": {"exploration", "", "seeded CSV texts (valid records, \\N, bad quoting, short records, unparsable numbers, all four destination types, seeded mappings and separators) delivered to the real doBatchInsert by a simulated reader in seeded chunks, optionally ending in EOF mid-record or a read error, with the real storage in a simulated world (ticks during the import, small caches); stored rows compared with a reference decomposition (encoding/csv over the unchunked text + independent conversion table) after the import, after restart and after crash recovery; distinct = distinct (schema types, fault kind, chunk class, record-kind set) combinations with at least one accepted and one rejected record", nil, 40, 600},
	"C20": {"exploration", "", "seeded statement lists (literals with semicolons, the other quote kind, spaces, multi-byte runes) laid out with seeded line breaks, several per line or one across many, typed (1-byte reads), chunked (reads up to 256 bytes cutting runes) or pasted (bracketed-paste markers cut by chunking), optionally ending in EOF at a seeded byte, fed to the real Terminal.ReadLine; the concatenated results must equal the typed statements; distinct = distinct (mode, statement count, literal features, layout, EOF, chunk pattern size) combinations with at least two statements submitted", nil, 30, 300},
}

type driverReplay struct {
	Property  string            `json:"property"`
	Driver    bool              `json:"driver"`
	Signature string            `json:"signature"`
	Oracle    string            `json:"oracle"`
	Features  map[string]string `json:"features"`
	Detail    string            `json:"detail"`
	Seed      uint64            `json:"seed"`
	Case      json.RawMessage   `json:"case"`
}

func runShard(bin, prop, tier string, env []string, scratch string) (*core.DriverResult, string) {
	os.MkdirAll(scratch, 0755)
	defer os.RemoveAll(scratch)
	cmd := exec.Command(bin, "-test.run", "TestVerif"+prop+"$", "-test.timeout", "6h")
	cmd.Dir = scratch
	cmd.Env = append(append(os.Environ(), env...), "SIM_DRIVER="+prop, "VERIF_TIER="+tier, "GOMAXPROCS=2", "SIM_SCRATCH="+scratch)
	pr, pw, err := os.Pipe()
	if err != nil {
		return nil, err.Error()
	}
	cmd.ExtraFiles = []*os.File{pw}
	devnull, _ := os.OpenFile(os.DevNull, os.O_WRONLY, 0)
	cmd.Stdout = devnull
	eb := &tailBuf{}
	cmd.Stderr = eb
	if err := cmd.Start(); err != nil {
		return nil, err.Error()
	}
	pw.Close()
	// backstop: a shard that is still there long after its budget is stuck
	// beyond what its own per-case watchdog handles
	limit := 600 * time.Second
	for _, e := range env {
		if strings.HasPrefix(e, "SIM_BUDGET_SEC=") {
			if n, err := strconv.Atoi(e[len("SIM_BUDGET_SEC="):]); err == nil {
				limit = time.Duration(n+420) * time.Second
			}
		}
	}
	killer := time.AfterFunc(limit, func() { cmd.Process.Kill() })
	defer killer.Stop()
	var res *core.DriverResult
	sc := bufio.NewReaderSize(pr, 1<<20)
	for {
		line, err := sc.ReadString('\n')
		if strings.HasPrefix(line, "SIMRESULT ") {
			var r core.DriverResult
			if e := json.Unmarshal([]byte(line[len("SIMRESULT "):]), &r); e == nil {
				res = &r
			}
		}
		if err != nil {
			break
		}
	}
	werr := cmd.Wait()
	pr.Close()
	devnull.Close()
	if res == nil {
		return nil, fmt.Sprintf("driver shard produced no result (%v): %s", werr, head(eb.String(), 2000))
	}
	return res, ""
}

func driverMain(prop, tier, bin string) int {
	info, ok := driverProps[prop]
	if !ok {
		fmt.Fprintln(os.Stderr, "unknown driver property", prop)
		return 2
	}
	start := time.Now()
	baseSeed := uint64(1)
	if s := os.Getenv("VERIF_SEED"); s != "" {
		if v, err := strconv.ParseUint(s, 10, 64); err == nil {
			baseSeed = v
		}
	}
	fmt.Printf("simcheck driver property=%s tier=%s VERIF_SEED=%d\n", prop, tier, baseSeed)
	budget := info.quickSec
	if tier == "thorough" {
		budget = info.thoroughSec
	}
	if s := os.Getenv("SIM_BUDGET_SEC"); s != "" {
		if v, err := strconv.Atoi(s); err == nil {
			budget = v
		}
	}
	nsh := runtime.NumCPU()
	if s := os.Getenv("SIM_WORKERS"); s != "" {
		nsh, _ = strconv.Atoi(s)
	}
	pl, err := newPool()
	if err != nil {
		fmt.Println("HARNESS-TROUBLE:", err)
		return 2
	}
	defer pl.cleanup()
	var mu sync.Mutex
	var results []*core.DriverResult
	harness := ""
	var wg sync.WaitGroup
	for i := 0; i < nsh; i++ {
		wg.Add(1)
		go func(i int) {
			defer wg.Done()
			env := []string{fmt.Sprintf("SIM_SEED_BASE=%d", baseSeed*1000003), fmt.Sprintf("SIM_SHARD=%d", i), fmt.Sprintf("SIM_NSHARDS=%d", nsh), fmt.Sprintf("SIM_BUDGET_SEC=%d", budget)}
			r, h := runShard(bin, prop, tier, env, filepath.Join(pl.base, fmt.Sprintf("s%d", i)))
			mu.Lock()
			if h != "" && harness == "" {
				harness = h
			}
			if r != nil {
				if r.Harness != "" && harness == "" {
					harness = r.Harness
				}
				results = append(results, r)
			}
			mu.Unlock()
		}(i)
	}
	wg.Wait()
	if harness != "" {
		fmt.Println("HARNESS-TROUBLE:", harness)
		return 2
	}
	sum := &summary{stats: map[string]int64{}, fps: map[string]bool{}, hashes: map[string]bool{}}
	findings := loadFindings()
	known := map[string]int{}
	bySig := map[string]*core.DriverViolation{}
	for _, r := range results {
		sum.jobs += r.Evals
		for k, v := range r.Stats {
			sum.stats[k] += v
		}
		for _, f := range r.Fingerprints {
			sum.fps[f] = true
		}
		if r.Hash != "" {
			sum.hashes[r.Hash] = true
		}
		sum.seeds = append(sum.seeds, r.Seeds[0], r.Seeds[1])
		for _, s := range r.Samples {
			if len(sum.samples) < 3 {
				sum.samples = append(sum.samples, s)
			}
		}
		for _, v := range r.Violations {
			vv := v.AsViolation()
			if f := matchFinding(findings, vv); f != nil {
				known[f.ID]++
				continue
			}
			if _, dup := bySig[vv.Signature()]; !dup {
				bySig[vv.Signature()] = v
			}
		}
	}
	if sum.jobs == 0 {
		fmt.Println("HARNESS-TROUBLE: no case was executed")
		return 2
	}
	sum.simMs = sum.stats["sim_ms"]
	sum.stmts = int(sum.stats["records"] + sum.stats["statements_typed"])
	sum.images = int(sum.stats["recoveries"])
	var knownIDs []string
	for id := range known {
		knownIDs = append(knownIDs, id)
	}
	sort.Strings(knownIDs)
	for _, id := range knownIDs {
		for _, f := range findings {
			if f.ID == id {
				fmt.Printf("KNOWN-FINDING: property=%s %s [%s, seen %d times in this run]\n", f.Property, f.What, f.ID, known[id])
			}
		}
	}
	exit := 0
	var sigs []string
	for s := range bySig {
		sigs = append(sigs, s)
	}
	sort.Strings(sigs)
	for _, sig := range sigs {
		v := bySig[sig]
		rf := &driverReplay{Property: prop, Driver: true, Signature: sig, Oracle: v.Oracle, Features: v.Features, Detail: v.Detail, Seed: v.Seed, Case: v.Case}
		b, _ := json.MarshalIndent(rf, "", " ")
		dir := filepath.Join(verifDir(), "replays", prop)
		os.MkdirAll(dir, 0755)
		h := planHashBytes(v.Case)
		path := filepath.Join(dir, h+".json")
		os.WriteFile(path, b, 0644)
		// replay in a fresh process
		r, hh := runShard(bin, prop, tier, replayCaseEnv(pl.base, v.Case), filepath.Join(pl.base, "replay"))
		ok := false
		if hh == "" && r != nil {
			for _, x := range r.Violations {
				if x.AsViolation().Signature() == sig {
					ok = true
				}
			}
		}
		if !ok {
			fmt.Printf("HARNESS-TROUBLE: violation %s did not reproduce on replay (%s)\n", sig, hh)
			return 2
		}
		fmt.Printf("violation: %s\n  %s\n", sig, v.Detail)
		fmt.Printf("VIOLATION property=%s replay=%s\n", prop, path)
		exit = 1
	}
	wall := time.Since(start).Seconds()
	writeEvidence(prop, tier, baseSeed, info, sum, wall, len(sigs), knownIDs)
	fmt.Printf("%s %s: %d cases, %.0f cases/h, %d distinct non-trivial, %d violations, %d known findings, %.1fs wall\n", prop, tier, sum.jobs, float64(sum.jobs)/wall*3600, len(sum.fps), len(sigs), len(knownIDs), wall)
	return exit
}

// replayCaseEnv hands a case to the driver binary: small ones in the
// environment, large ones (a flood of records) through a file.
func replayCaseEnv(base string, c []byte) []string {
	if len(c) < 60000 {
		return []string{"VERIF_REPLAY_CASE=" + string(c)}
	}
	f := filepath.Join(base, fmt.Sprintf("replay-case-%d.json", time.Now().UnixNano()))
	if err := os.WriteFile(f, c, 0644); err != nil {
		return []string{"VERIF_REPLAY_CASE=" + string(c)}
	}
	return []string{"VERIF_REPLAY_CASE_FILE=" + f}
}

func driverReplayFile(rf *driverReplay) int {
	bins := map[string]string{"C19": "csvimport.test", "C20": "console.test"}
	bin := filepath.Join(verifDir(), "bin", bins[rf.Property])
	pl, err := newPool()
	if err != nil {
		fmt.Println("HARNESS-TROUBLE:", err)
		return 2
	}
	defer pl.cleanup()
	r, h := runShard(bin, rf.Property, "quick", replayCaseEnv(pl.base, rf.Case), filepath.Join(pl.base, "replay"))
	if h != "" {
		fmt.Println("HARNESS-TROUBLE:", h, "(build the driver first: ./run.sh", rf.Property, "quick)")
		return 2
	}
	for _, x := range r.Violations {
		v := x.AsViolation()
		fmt.Println("  ", v.String())
		if v.Signature() == rf.Signature {
			if f := matchFinding(loadFindings(), v); f != nil {
				fmt.Printf("KNOWN-FINDING: property=%s %s [%s]\n", f.Property, f.What, f.ID)
				return 0
			}
			fmt.Printf("VIOLATION property=%s replay=(this file)\n", rf.Property)
			return 1
		}
	}
	fmt.Println("the recorded violation did not occur")
	return 0
}
