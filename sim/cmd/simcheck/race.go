package main

import (
	"fmt"
	"os"
	"path/filepath"
	"reflect"
	"runtime"
	"sort"
	"strings"

	"verif/sim/core"

	"github.com/mk6i/mkdb/storage"
)

// Race-detector workers (binary built with -race and tag verifrace). The
// runtime appends its reports to $SIM_RACE_LOG.<pid>; after every job the new
// part of that file is read and the reports in which both accesses are made
// by mkdb's own code become violations (oracle O-race).

var raceLogOff int64

func repoRoot() string {
	f := runtime.FuncForPC(reflect.ValueOf(storage.InitStorage).Pointer())
	if f == nil {
		return ""
	}
	file, _ := f.FileLine(f.Entry())
	return filepath.Dir(filepath.Dir(file)) + string(filepath.Separator)
}

type raceAccess struct {
	funcs []string
	files []string
}

// mkdbTop returns the function of the topmost frame that belongs to mkdb, if
// the access was made by mkdb code proper: the first frame outside the Go
// library is in the repository, and no frame is simulator instrumentation or
// an accessor the simulator calls (verif_*.go).
func (a *raceAccess) mkdbTop(root, self string) (string, bool) {
	top := ""
	for i, f := range a.files {
		if strings.Contains(f, "/verif_") {
			return "", false
		}
		ours := strings.HasPrefix(f, root) || strings.HasPrefix(f, self)
		if top == "" && ours {
			if !strings.HasPrefix(f, root) {
				return "", false
			}
			top = a.funcs[i]
		}
	}
	return top, top != ""
}

func parseRaceReports(txt string) [][2]raceAccess {
	var out [][2]raceAccess
	for _, rp := range strings.Split(txt, "==================\n") {
		if !strings.Contains(rp, "DATA RACE") {
			continue
		}
		secs := strings.Split(strings.TrimSpace(rp), "\n\n")
		if len(secs) < 2 {
			continue
		}
		var pair [2]raceAccess
		for k := 0; k < 2; k++ {
			lines := strings.Split(secs[k], "\n")
			for i := 0; i+1 < len(lines); i++ {
				if strings.HasPrefix(lines[i], "  ") && !strings.HasPrefix(lines[i], "   ") && strings.HasPrefix(lines[i+1], "      ") {
					fn := strings.TrimSpace(lines[i])
					if j := strings.LastIndex(fn, "("); j > 0 {
						fn = fn[:j]
					}
					file := strings.Fields(strings.TrimSpace(lines[i+1]))[0]
					if j := strings.LastIndex(file, ":"); j > 0 {
						file = file[:j]
					}
					pair[k].funcs = append(pair[k].funcs, fn)
					pair[k].files = append(pair[k].files, file)
				}
			}
		}
		out = append(out, pair)
	}
	return out
}

func collectRaces(job *Job, res *core.RunResult) {
	base := os.Getenv("SIM_RACE_LOG")
	if base == "" || res == nil {
		return
	}
	path := fmt.Sprintf("%s.%d", base, os.Getpid())
	b, err := os.ReadFile(path)
	if err != nil || int64(len(b)) <= raceLogOff {
		return
	}
	txt := string(b[raceLogOff:])
	raceLogOff = int64(len(b))
	root := repoRoot()
	self := verifDir() + string(filepath.Separator)
	seen := map[string]bool{}
	for _, pair := range parseRaceReports(txt) {
		res.Stats["race_reports"]++
		fa, oka := pair[0].mkdbTop(root, self)
		fb, okb := pair[1].mkdbTop(root, self)
		if !oka || !okb {
			res.Stats["race_reports_involving_the_simulator"]++
			continue
		}
		res.Stats["race_reports_mkdb_only"]++
		fs := []string{short(fa), short(fb)}
		sort.Strings(fs)
		key := fs[0] + " / " + fs[1]
		if seen[key] {
			continue
		}
		seen[key] = true
		res.Violations = append(res.Violations, &core.Violation{Prop: job.Prop, Oracle: "O-race",
			Features: map[string]string{"how": "data-race", "a": fs[0], "b": fs[1]},
			Detail: fmt.Sprintf("the race detector (run under the simulator's schedule, baton hand-over hidden from it) reports unsynchronised accesses by %s [%s] and %s [%s]: only the schedule kept them apart, nothing in mkdb orders them",
				fa, strings.Join(trimFrames(pair[0].funcs), " < "), fb, strings.Join(trimFrames(pair[1].funcs), " < "))})
	}
}

func short(fn string) string {
	if i := strings.LastIndex(fn, "/"); i >= 0 {
		fn = fn[i+1:]
	}
	return fn
}

func trimFrames(fs []string) []string {
	var out []string
	for _, f := range fs {
		if strings.Contains(f, "verif/sim/") || strings.HasPrefix(f, "main.") {
			break
		}
		out = append(out, short(f))
		if len(out) == 6 {
			break
		}
	}
	return out
}
