// simcheck: coordinator, worker and replay for the mkdb deterministic simulator.
package main

import (
	"encoding/json"
	"fmt"
	"os"
	"runtime"
	"runtime/pprof"
	"strconv"
	"time"

	"verif/sim/core"
)

func usage() {
	fmt.Fprintln(os.Stderr, `usage:
  simcheck run <prop> <quick|thorough>     coordinator (spawns workers)
  simcheck worker                          (internal) executes jobs from stdin
  simcheck one <prop> <tier> <seed>        run one seed in-process, print the result
  simcheck plan <prop> <tier> <seed>       print the generated plan
  simcheck replay <file>                   replay a violation file
  simcheck selftest <prop> ...             determinism self-test`)
	os.Exit(2)
}

func main() {
	if len(os.Args) < 2 {
		usage()
	}
	switch os.Args[1] {
	case "one":
		if len(os.Args) < 5 {
			usage()
		}
		seed, _ := strconv.ParseUint(os.Args[4], 10, 64)
		silenceStdout()
		pf := core.ProfileFor(os.Args[2], os.Args[3], seed)
		p := core.Generate(pf, seed)
		scratch, _ := os.MkdirTemp(scratchBase(), "one")
		defer os.RemoveAll(scratch)
		res := core.RunPlan(p, &core.Env{Scratch: scratch})
		b, _ := json.MarshalIndent(res, "", " ")
		fmt.Fprintln(realStdout, string(b))
	case "hash":
		if pf := os.Getenv("SIM_CPUPROFILE"); pf != "" {
			f, _ := os.Create(pf)
			pprof.StartCPUProfile(f)
			defer pprof.StopCPUProfile()
		}
		// print the event-log hash and outcome digest of one seed (determinism self-test)
		if len(os.Args) < 5 {
			usage()
		}
		seed, _ := strconv.ParseUint(os.Args[4], 10, 64)
		silenceStdout()
		scratch, _ := os.MkdirTemp(scratchBase(), "hash")
		defer os.RemoveAll(scratch)
		job := &Job{Prop: os.Args[2], Tier: os.Args[3], Seed: seed, Mode: jobMode(props[os.Args[2]].mode, int(seed%2))}
		res, _ := runJob(job, &core.Env{Scratch: scratch})
		nv := ""
		for _, v := range res.Violations {
			nv += v.Signature() + ";"
		}
		fmt.Fprintf(realStdout, "%s stmts=%d images=%d viol=%s harness=%s\n", res.EventHash, res.Stmts, res.Images, nv, res.Harness)
	case "genfuzz":
		// generator self-test: build plans for n consecutive seeds, report any panic
		if len(os.Args) < 6 {
			usage()
		}
		from, _ := strconv.ParseUint(os.Args[4], 10, 64)
		n, _ := strconv.ParseUint(os.Args[5], 10, 64)
		bad := 0
		for seed := from; seed < from+n; seed++ {
			func() {
				defer func() {
					if r := recover(); r != nil {
						bad++
						if bad <= 5 {
							fmt.Printf("generator panic: prop=%s tier=%s seed=%d: %v\n", os.Args[2], os.Args[3], seed, r)
						}
					}
				}()
				pf := core.ProfileFor(os.Args[2], os.Args[3], seed)
				p := core.Generate(pf, seed)
				_ = p.JSON()
			}()
		}
		fmt.Printf("genfuzz %s %s: %d seeds from %d, %d panics\n", os.Args[2], os.Args[3], n, from, bad)
		if bad > 0 {
			os.Exit(1)
		}
	case "plan":
		if len(os.Args) < 5 {
			usage()
		}
		seed, _ := strconv.ParseUint(os.Args[4], 10, 64)
		pf := core.ProfileFor(os.Args[2], os.Args[3], seed)
		p := core.Generate(pf, seed)
		os.Stdout.Write(p.JSON())
	case "runfile":
		// run the plan of a replay file in this process (no coordinator, no
		// limits) and print peak memory: for measuring the harness itself
		b, err := os.ReadFile(os.Args[2])
		if err != nil {
			fmt.Println(err)
			os.Exit(2)
		}
		var rf ReplayFile
		if err := json.Unmarshal(b, &rf); err != nil || rf.Plan == nil {
			fmt.Println("not a plan replay file")
			os.Exit(2)
		}
		silenceStdout()
		scratch, _ := os.MkdirTemp(scratchBase(), "runfile")
		defer os.RemoveAll(scratch)
		job := &Job{Prop: rf.Property, Tier: "quick", Seed: rf.Seed, Mode: rf.Mode, Plan: rf.Plan}
		if f := os.Getenv("SIM_HEAPPROFILE"); f != "" {
			go func() {
				for {
					time.Sleep(200 * time.Millisecond)
					var ms runtime.MemStats
					runtime.ReadMemStats(&ms)
					if ms.HeapAlloc > 1200<<20 {
						fh, _ := os.Create(f)
						pprof.Lookup("heap").WriteTo(fh, 0)
						fh.Close()
						return
					}
				}
			}()
		}
		res, _ := runJob(job, &core.Env{Scratch: scratch})
		var ms runtime.MemStats
		runtime.ReadMemStats(&ms)
		fmt.Fprintf(realStdout, "stmts=%d images=%d violations=%d harness=%q heap_sys=%dMB total_alloc=%dMB\n", res.Stmts, res.Images, len(res.Violations), res.Harness, ms.HeapSys>>20, ms.TotalAlloc>>20)
		if f := os.Getenv("SIM_MEMPROFILE"); f != "" {
			fh, _ := os.Create(f)
			pprof.Lookup("allocs").WriteTo(fh, 0)
			fh.Close()
		}
	case "run":
		if len(os.Args) < 4 {
			usage()
		}
		os.Exit(coordinate(os.Args[2], os.Args[3]))
	case "driver":
		if len(os.Args) < 5 {
			usage()
		}
		os.Exit(driverMain(os.Args[2], os.Args[3], os.Args[4]))
	case "worker":
		workerMain()
	case "replay":
		if len(os.Args) < 3 {
			usage()
		}
		os.Exit(replay(os.Args[2]))
	case "selftest":
		os.Exit(selftest(os.Args[2:]))
	default:
		usage()
	}
}

var realStdout = os.Stdout

// keep fd 2 referenced: the runtime writes fatal errors there, and an
// unreferenced *os.File would be closed by its finalizer
var realStderr = os.Stderr

// mkdb prints on every statement; point the Go-level stdout at /dev/null.
func silenceStdout() {
	devnull, err := os.OpenFile(os.DevNull, os.O_WRONLY, 0)
	if err == nil {
		os.Stdout = devnull
	}
}

func scratchBase() string {
	if st, err := os.Stat("/dev/shm"); err == nil && st.IsDir() {
		return "/dev/shm"
	}
	return os.TempDir()
}
