package main

import (
	"bufio"
	"bytes"
	"crypto/sha256"
	"encoding/hex"
	"encoding/json"
	"fmt"
	"io"
	"os"
	"os/exec"
	"path/filepath"
	"runtime"
	"sort"
	"strconv"
	"strings"
	"sync"
	"time"

	"verif/sim/core"
)

// ---- worker pool ----

type workerProc struct {
	idx     int
	cmd     *exec.Cmd
	in      io.WriteCloser
	out     *bufio.Reader
	errBuf  *tailBuf
	scratch string
	jobs    int
}

type tailBuf struct {
	mu  sync.Mutex
	buf []byte
}

func (t *tailBuf) Write(p []byte) (int, error) {
	t.mu.Lock()
	t.buf = append(t.buf, p...)
	if len(t.buf) > 1<<16 {
		// keep head (fatal error line) and tail
		head := append([]byte(nil), t.buf[:1<<13]...)
		tail := t.buf[len(t.buf)-(1<<14):]
		t.buf = append(head, tail...)
	}
	t.mu.Unlock()
	return len(p), nil
}
func (t *tailBuf) String() string { t.mu.Lock(); defer t.mu.Unlock(); return string(t.buf) }

type pool struct {
	base    string
	mu      sync.Mutex
	nextIdx int
}

func newPool() (*pool, error) {
	base, err := os.MkdirTemp(scratchBase(), "verif-sim-")
	if err != nil {
		return nil, err
	}
	return &pool{base: base}, nil
}

func (p *pool) cleanup() { os.RemoveAll(p.base) }

// raceBinary: the race-detector build of this program, if run.sh built it.
func raceBinary() string {
	self, err := os.Executable()
	if err != nil {
		return ""
	}
	rb := self + "-race"
	if strings.HasSuffix(self, "-race") {
		rb = self
	}
	if _, err := os.Stat(rb); err != nil {
		return ""
	}
	return rb
}

func (p *pool) spawn() (*workerProc, error) { return p.spawnKind(false) }

func (p *pool) spawnKind(race bool) (*workerProc, error) {
	p.mu.Lock()
	idx := p.nextIdx
	p.nextIdx++
	p.mu.Unlock()
	self, err := os.Executable()
	if err != nil {
		return nil, err
	}
	scratch := filepath.Join(p.base, fmt.Sprintf("w%d", idx))
	os.MkdirAll(scratch, 0755)
	var extra []string
	if race {
		self = raceBinary()
		if self == "" {
			return nil, fmt.Errorf("race-detector build of the simulator not found (run.sh builds it for C13)")
		}
		rl := filepath.Join(p.base, fmt.Sprintf("racelog-w%d", idx))
		extra = []string{"GORACE=halt_on_error=0 log_path=" + rl, "SIM_RACE_LOG=" + rl, "GOMAXPROCS=4"}
	}
	cmd := exec.Command(self, "worker")
	cmd.Env = append(append(os.Environ(), "SIM_SCRATCH="+scratch, "GOMAXPROCS=2", "GOTRACEBACK=single"), extra...)
	cmd.Dir = scratch
	in, err := cmd.StdinPipe()
	if err != nil {
		return nil, err
	}
	outp, err := cmd.StdoutPipe()
	if err != nil {
		return nil, err
	}
	eb := &tailBuf{}
	cmd.Stderr = eb
	if err := cmd.Start(); err != nil {
		return nil, err
	}
	return &workerProc{idx: idx, cmd: cmd, in: in, out: bufio.NewReaderSize(outp, 1<<20), errBuf: eb, scratch: scratch}, nil
}

func (w *workerProc) stop() {
	w.in.Close()
	done := make(chan struct{})
	go func() { w.cmd.Wait(); close(done) }()
	select {
	case <-done:
	case <-time.After(3 * time.Second):
		w.cmd.Process.Kill()
		<-done
	}
	os.RemoveAll(w.scratch)
}

// runJob executes a job on this worker; on a fatal death of the worker it
// classifies the death, records it in job.Fatal and reports died=true (the
// caller re-dispatches the job on a fresh worker).
func (w *workerProc) runJob(job *Job) (msg *Msg, died bool, harness string) {
	b, _ := json.Marshal(job)
	if _, err := w.in.Write(append(b, '\n')); err != nil {
		w.cmd.Wait()
		return nil, true, "worker not accepting jobs: " + err.Error() + "\n" + w.errBuf.String()
	}
	lastKey := ""
	for {
		line, err := w.out.ReadBytes('\n')
		if err != nil {
			// worker died
			w.cmd.Wait()
			os.RemoveAll(w.scratch)
			stderr := w.errBuf.String()
			class := classifyDeath(stderr)
			if class == "" || lastKey == "" {
				return nil, true, fmt.Sprintf("worker died outside a journaled mkdb step (job seed %d, key %q): %s ... %s", job.Seed, lastKey, head(stderr, 2500), tail(stderr, 600))
			}
			if job.Fatal == nil {
				job.Fatal = map[string]string{}
			}
			if _, dup := job.Fatal[lastKey]; dup {
				return nil, true, fmt.Sprintf("worker died twice at step %q: %s", lastKey, tail(stderr, 1500))
			}
			job.Fatal[lastKey] = class
			return nil, true, ""
		}
		var m Msg
		if err := json.Unmarshal(line, &m); err != nil {
			return nil, true, "garbled worker output: " + string(line)
		}
		switch {
		case m.Journal != "":
			lastKey = m.Journal
		case m.Hang != "" || m.OOM != "":
			key := m.Hang + m.OOM
			cls := "hang"
			if m.OOM != "" {
				cls = "memory-blowup"
			}
			w.cmd.Wait()
			os.RemoveAll(w.scratch)
			if key == "" {
				return nil, true, "worker watchdog fired outside a journaled step"
			}
			if job.Fatal == nil {
				job.Fatal = map[string]string{}
			}
			job.Fatal[key] = cls
			return nil, true, ""
		case m.Result != nil:
			w.jobs++
			return &m, false, ""
		}
	}
}

func head(s string, n int) string {
	if len(s) > n {
		return s[:n]
	}
	return s
}

func tail(s string, n int) string {
	if len(s) > n {
		return s[len(s)-n:]
	}
	return s
}

// classifyDeath recognises deaths caused by mkdb code; anything else is harness trouble.
func classifyDeath(stderr string) string {
	if !strings.Contains(stderr, "github.com/mk6i/mkdb/") {
		return ""
	}
	switch {
	case strings.Contains(stderr, "stack overflow") || strings.Contains(stderr, "goroutine stack exceeds"):
		return "stack-overflow"
	case strings.Contains(stderr, "out of memory") || strings.Contains(stderr, "cannot allocate memory"):
		return "out-of-memory"
	case strings.Contains(stderr, "all goroutines are asleep"):
		return "deadlock"
	}
	// a panic that no recover() stands behind: statements run under recover
	// in the session task, so this is a panic in a goroutine mkdb started
	// itself (the flusher, csvimport's worker) - the process a user runs dies
	// the same way. Only if the panicking frame is mkdb code: a panic raised
	// by the simulator's own hook handlers stays harness trouble.
	if i := strings.Index(stderr, "\npanic: "); i >= 0 || strings.HasPrefix(stderr, "panic: ") {
		if i < 0 {
			i = 0
		}
		rest := stderr[i:]
		if j := strings.Index(rest, "[running]:"); j >= 0 {
			for _, line := range strings.Split(rest[j:], "\n")[1:] {
				line = strings.TrimSpace(line)
				if line == "" || strings.HasPrefix(line, "/") || strings.HasPrefix(line, "panic(") || strings.HasPrefix(line, "runtime.") || strings.HasPrefix(line, "runtime/") {
					continue
				}
				if strings.HasPrefix(line, "github.com/mk6i/mkdb/") && !strings.Contains(line, ".verif") && !strings.Contains(line, ".Verif") {
					return "panic-in-background-goroutine"
				}
				break
			}
		}
	}
	return ""
}

// ---- known findings ----

type Finding struct {
	ID       string                 `json:"id"`
	Property string                 `json:"property"`
	Status   string                 `json:"status"` // open | fixed
	Match    map[string]interface{} `json:"match,omitempty"`
	What     string                 `json:"what"`
	Replay   string                 `json:"replay,omitempty"`
	Commit   string                 `json:"commit,omitempty"`
}

type findingsFile struct {
	Findings []Finding `json:"findings"`
}

func loadFindings() []Finding {
	b, err := os.ReadFile(filepath.Join(verifDir(), "known_findings.json"))
	if err != nil {
		return nil
	}
	var f findingsFile
	if err := json.Unmarshal(b, &f); err != nil {
		fmt.Fprintln(os.Stderr, "known_findings.json:", err)
		os.Exit(2)
	}
	return f.Findings
}

// keys of a finding's match that describe the crash site (as opposed to the
// way the failure showed)
var siteKeys = map[string]bool{"site": true, "pos": true, "cut": true, "torn": true, "last_rec": true, "next_rec": true, "trigger": true, "subset": true, "alloc": true}

func matchVal(want interface{}, got string) bool {
	switch t := want.(type) {
	case string:
		return got == t
	case []interface{}:
		for _, x := range t {
			if s, _ := x.(string); s == got {
				return true
			}
		}
	}
	return false
}

// matchFinding: a violation belongs to an open finding if all keys of the
// finding's match agree with the violation's own features, or if the world it
// happened in descends from a crash image whose site description agrees with
// the site keys of the match (the defect was triggered there and the world is
// damaged from then on).
func matchFinding(fs []Finding, v *core.Violation) *Finding {
	for i := range fs {
		f := &fs[i]
		if f.Status != "open" || f.Property != v.Prop || len(f.Match) == 0 {
			continue
		}
		ok := true
		for k, want := range f.Match {
			got := v.Features[k]
			if k == "oracle" {
				got = v.Oracle
			}
			if !matchVal(want, got) {
				ok = false
			}
		}
		if ok {
			return f
		}
		for _, anc := range v.Chain {
			ok, n := true, 0
			for k, want := range f.Match {
				if !siteKeys[k] {
					continue
				}
				n++
				if !matchVal(want, anc[k]) {
					ok = false
				}
			}
			if ok && n > 0 {
				return f
			}
		}
	}
	return nil
}

func verifDir() string {
	if d := os.Getenv("VERIF_DIR"); d != "" {
		return d
	}
	self, err := os.Executable()
	if err == nil {
		d := filepath.Dir(filepath.Dir(self))
		if _, err := os.Stat(filepath.Join(d, "properties.jsonl")); err == nil {
			return d
		}
	}
	return "/verif"
}

// ---- coordinator ----

type propInfo struct {
	level                 string
	mode                  string
	rule                  string
	assumptions           []string
	quickSec, thoroughSec int
}

var commonAssume = []string{
	"hooks (build tag verif) observe every write to data and log files; a census compares shadow files with the real files after every world",
	"fault model of the properties: process death, whole write()/WriteAt() calls survive, optional loss of the un-fsynced log tail; no torn 4 KB pages, no I/O errors",
	"reference model (verif/sim/core/model.go) is the meaning of CREATE TABLE / INSERT / UPDATE / DELETE over tag-column WHERE clauses",
	"one seed = one plan = one schedule; samples, not proof",
}

var props = map[string]propInfo{
	"C01": {"exploration", "", "seeded statement histories (DDL/DML over 1-32 tables, all value types) run fault-free under seeded tick placement, cache capacity and clean restarts; after statements SELECT * of every table and the catalog are compared with the model incl. row-id rules; distinct = distinct timeline shape fingerprints (set of reach probes hit x cache class x table count) with at least one split (root move) and one cold read or restart", nil, 50, 900},
	"C02": {"fault_enumeration", "", "crash images at statement boundaries of seeded histories under seeded flush (tick) placements incl. clean close, recovered with the real InitStorage (twice), compared with the model, continued with further statements and nested crashes to depth 3; distinct = distinct image contents (sha256 of data+log files) whose recovery redid at least one log record", nil, 50, 900},
	"C03": {"fault_enumeration", "", "for sampled statements an image before every log write/fsync (record length, body, fsync) in two variants (log cut at last write / last fsync); recovered state must equal the before-state plus a prefix of the statement's row operations; continuation statements checked against the adopted state; distinct = distinct image contents whose recovery redid at least one record", nil, 50, 900},
	"C04": {"fault_enumeration", "", "for sampled flushes (timer, CREATE TABLE, close, recovery) images with a seeded subset of the flush's page writes applied and no header, or the complete flush; recovery must yield exactly the acknowledged state; distinct = distinct image contents that are torn (subset neither empty nor complete) or whose recovery redid a record", nil, 50, 900},
	"C08": {"exploration", "", "value-focused histories (INT32/INT64 extremes, empty and 8-bit strings, NULLs, rows at exactly 400 and 401+ encoded bytes, wrong types) via SQL text and direct structs, read back immediately, after flush+eviction under small caches (cold reads), after clean restart and after crash recovery; distinct = distinct timeline shapes with cold reads and a restart or recovery", nil, 45, 600},
	"C11": {"exploration", "", "tree walk (key order, separator bounds, leaf depth, no page twice, capacity, sibling chain both ways, point lookup of every stored key, real right-to-left scan) after every operation in small histories and periodically in large ones, incl. after clean restart and after crash recovery at statement boundaries; distinct = distinct timeline shapes", nil, 45, 900},
	"C12": {"exploration", "", "at every page write of every simulated run the bytes are decoded with the real decoder and compared field by field with the node written; every cold read is compared with the view recorded at write time; distinct = distinct timeline shapes; reach probes count full leaves, tombstones, both siblings, big values, internal nodes", nil, 45, 900},
	"C13": {"exploration", "c13sweep", "schedules: seeded tick/stall placements plus, for sampled statements of every kind, one derived run per yield point with virtual time passing exactly there (so each flusher gets a tick mid-statement); lock-discipline monitor at every store access and no-write-between-first-change-and-log-completion monitor; distinct = distinct (statement kind, yield index, flusher parked?) triples", nil, 50, 900},
	"C14": {"exploration", "", "failing statements of every listed class in seeded states, multi-row statements failing at row k for every k, followed by ticks, clean restarts and crash recovery; all tables and the catalog compared with the model (unchanged); distinct = distinct timeline shapes", nil, 45, 600},
	"C15": {"exploration", "lrudrive", "shadow model of every store's cache driven by the cache hooks during simulated workloads under capacities 12-64 and withheld ticks, plus seeded operation sequences on a stand-alone cache (capacity 1-40); compared after every event; distinct = distinct (capacity, key count, length class, refusal pattern) of sequences", nil, 45, 600},
	"C16": {"exploration", "c16diff", "one plan executed in two worlds (default cache 10000 vs seeded capacity 12-256 with the precondition enforced by an extra tick when dirty pages approach capacity); statement outcomes, result digests of observer queries and final contents must be identical; distinct = distinct (capacity, eviction volume, length) classes with evictions and cold reads", nil, 50, 900},
	"C17": {"exploration", "", "sessions over 2-4 databases interleaving CREATE DATABASE / USE / SHOW DATABASES (incl. duplicates, missing, re-selecting the current one) with DDL/DML, ticks delivered to every live flusher incl. those of abandoned stores, clean restarts and crashes; per-database contents vs model; distinct = distinct timeline shapes", nil, 45, 600},
	"C18": {"exploration", "", "type-confused and NULL-touching statements (aggregates, ORDER BY, comparisons, joins, missing/ambiguous/duplicated columns) plus failing DML in sessions with no USE / failed USE / empty tables; every statement runs under recover with a step watchdog; distinct = distinct timeline shapes", nil, 45, 600},
}

type summary struct {
	jobs, stmts, images int
	simMs               int64
	stats               map[string]int64
	fps                 map[string]bool
	hashes              map[string]bool
	seeds               []uint64
	samples             []interface{}
	abandoned           int
}

func coordinate(prop, tier string) int {
	info, ok := props[prop]
	if !ok {
		fmt.Fprintf(os.Stderr, "unknown property %s\n", prop)
		return 2
	}
	start := time.Now()
	baseSeed := uint64(1)
	if s := os.Getenv("VERIF_SEED"); s != "" {
		if v, err := strconv.ParseUint(s, 10, 64); err == nil {
			baseSeed = v
		}
	}
	fmt.Printf("simcheck property=%s tier=%s VERIF_SEED=%d\n", prop, tier, baseSeed)
	budget := time.Duration(info.quickSec) * time.Second
	if tier == "thorough" {
		budget = time.Duration(info.thoroughSec) * time.Second
	}
	if s := os.Getenv("SIM_BUDGET_SEC"); s != "" {
		if v, err := strconv.Atoi(s); err == nil {
			budget = time.Duration(v) * time.Second
		}
	}
	maxJobs := -1
	if s := os.Getenv("SIM_MAX_JOBS"); s != "" {
		maxJobs, _ = strconv.Atoi(s)
	}
	nw := runtime.NumCPU()
	if s := os.Getenv("SIM_WORKERS"); s != "" {
		nw, _ = strconv.Atoi(s)
	}
	if nw < 1 {
		nw = 1
	}
	pl, err := newPool()
	if err != nil {
		fmt.Fprintln(os.Stderr, err)
		return 2
	}
	defer pl.cleanup()

	findings := loadFindings()
	sum := &summary{stats: map[string]int64{}, fps: map[string]bool{}, hashes: map[string]bool{}}
	type viol struct {
		v    *core.Violation
		job  Job
		plan *core.Plan
	}
	var mu sync.Mutex
	bySig := map[string]*viol{}
	known := map[string]int{}
	harness := ""
	nextJob := 0
	deadline := start.Add(budget)

	// regression first: the pinned replay of every repaired finding of this
	// property is run again; a fixed entry suppresses nothing, so whatever such
	// a plan violates now is reported like any other violation
	pinnedViol := 0
	for _, f := range findings {
		if f.Property != prop || f.Status != "fixed" || f.Replay == "" {
			continue
		}
		path := filepath.Join(verifDir(), f.Replay)
		b, err := os.ReadFile(path)
		if err != nil {
			continue
		}
		var rf ReplayFile
		if json.Unmarshal(b, &rf) != nil || rf.Plan == nil || rf.Property != prop {
			continue
		}
		res, h := runPlanJob(pl, Job{ID: 0, Prop: prop, Tier: "quick", Seed: rf.Seed, Plan: rf.Plan, Mode: rf.Mode})
		if h != "" {
			fmt.Printf("HARNESS-TROUBLE: pinned replay %s: %s\n", f.Replay, h)
			return 2
		}
		sum.stats["pinned_replays_of_fixed_findings_run"]++
		for _, v := range res.Violations {
			if matchFinding(findings, v) != nil {
				continue
			}
			fmt.Printf("violation: %s\n  %s\n  (pinned replay of repaired finding %s, repaired by %s)\n", v.Signature(), v.String(), f.ID, f.Commit)
			fmt.Printf("VIOLATION property=%s replay=%s\n", prop, path)
			pinnedViol++
			break
		}
	}

	// C13: a share of the workers runs the race-detector build (extra monitor)
	nRace := 0
	if prop == "C13" && raceBinary() != "" && os.Getenv("SIM_NO_RACE") == "" {
		nRace = nw / 5
		if nRace < 1 {
			nRace = 1
		}
	}
	var wg sync.WaitGroup
	for i := 0; i < nw; i++ {
		wg.Add(1)
		raceWorker := i < nRace
		go func() {
			defer wg.Done()
			var w *workerProc
			defer func() {
				if w != nil {
					w.stop()
				}
			}()
			for {
				mu.Lock()
				if harness != "" || time.Now().After(deadline) || (maxJobs >= 0 && nextJob >= maxJobs) || len(bySig) >= 6 {
					mu.Unlock()
					return
				}
				id := nextJob
				nextJob++
				mu.Unlock()
				seed := baseSeed*1000003 + uint64(id)
				job := Job{ID: id, Prop: prop, Tier: tier, Seed: seed, Mode: jobMode(info.mode, id), WantPlan: id < 2}
				if raceWorker {
					// plain run of the generated plan; the derived runs of the
					// sweep mode would cost ten times as much under the detector
					job.Race, job.Mode = true, ""
				}
				var msg *Msg
				for attempt := 0; attempt < 40; attempt++ {
					if w == nil || w.jobs >= 400 {
						if w != nil {
							w.stop()
						}
						var err error
						w, err = pl.spawnKind(raceWorker)
						if err != nil {
							mu.Lock()
							harness = "cannot start worker: " + err.Error()
							mu.Unlock()
							return
						}
					}
					m, died, h := w.runJob(&job)
					if h != "" {
						mu.Lock()
						harness = h
						mu.Unlock()
						w = nil
						return
					}
					if died {
						w = nil
						continue
					}
					msg = m
					break
				}
				if msg == nil {
					mu.Lock()
					harness = fmt.Sprintf("job %d (seed %d) never completed", id, seed)
					mu.Unlock()
					return
				}
				res := msg.Result
				mu.Lock()
				if res.Harness != "" {
					harness = fmt.Sprintf("seed %d: %s", seed, res.Harness)
				}
				sum.jobs++
				sum.stmts += res.Stmts
				sum.images += res.Images
				sum.simMs += res.SimMs
				sum.seeds = append(sum.seeds, seed)
				if res.Abandoned != "" {
					sum.abandoned++
				}
				for k, v := range res.Stats {
					sum.stats[k] += v
				}
				for _, f := range res.Fingerprints {
					sum.fps[f] = true
				}
				sum.hashes[res.EventHash] = true
				if msg.Plan != nil && len(sum.samples) < 2 {
					sum.samples = append(sum.samples, samplePlan(msg.Plan))
				}
				for _, v := range res.Violations {
					if f := matchFinding(findings, v); f != nil {
						known[f.ID]++
						continue
					}
					sig := v.Signature()
					if _, dup := bySig[sig]; !dup {
						pj := job
						vv := &viol{v: v, job: pj, plan: msg.Plan}
						if res.DerivedPlan != nil {
							vv.plan = res.DerivedPlan
							vv.job.Mode = ""
						}
						bySig[sig] = vv
					}
				}
				mu.Unlock()
			}
		}()
	}
	wg.Wait()

	if harness != "" {
		fmt.Printf("HARNESS-TROUBLE: %s\n", harness)
		return 2
	}
	if sum.jobs == 0 {
		if pinnedViol > 0 {
			return 1
		}
		fmt.Println("HARNESS-TROUBLE: no job completed")
		return 2
	}
	// instrumentation census across the batch
	if c := census(prop, sum); c != "" && len(bySig) == 0 {
		fmt.Printf("HARNESS-TROUBLE: instrumentation census failed: %s\n", c)
		return 2
	}

	// known findings
	var knownIDs []string
	for id := range known {
		knownIDs = append(knownIDs, id)
	}
	sort.Strings(knownIDs)
	for _, id := range knownIDs {
		for _, f := range findings {
			if f.ID == id {
				fmt.Printf("KNOWN-FINDING: property=%s %s [%s, seen %d times in this run]\n", f.Property, f.What, f.ID, known[id])
			}
		}
	}

	// new violations: minimise, write replay, confirm
	exit := 0
	if pinnedViol > 0 {
		exit = 1
	}
	var sigs []string
	for s := range bySig {
		sigs = append(sigs, s)
	}
	sort.Strings(sigs)
	nviol := 0
	var unconfirmed []string
	for _, sig := range sigs {
		vv := bySig[sig]
		plan := vv.plan
		if plan == nil {
			prof := prop
			if vv.job.Race && prof == "C13" {
				prof = "C13R"
			}
			pf := core.ProfileFor(prof, tier, vv.job.Seed)
			plan = core.Generate(pf, vv.job.Seed)
		}
		path, confirmed, detail := minimiseAndWrite(pl, prop, vv.job, plan, vv.v)
		if !confirmed {
			unconfirmed = append(unconfirmed, fmt.Sprintf("violation %s (seed %d) did not reproduce on replay: %s", sig, vv.job.Seed, detail))
			continue
		}
		nviol++
		fmt.Printf("violation: %s\n  %s\n", sig, detail)
		fmt.Printf("VIOLATION property=%s replay=%s\n", prop, path)
		exit = 1
	}
	// a violation that does not fail again when its plan runs alone is not
	// reported as one. If nothing else was confirmed that is harness trouble;
	// next to confirmed violations it is noted and dropped (a broken engine
	// can be nondeterministic by itself: flushPages walks a Go map, so a
	// flush that fails half-way leaves a file that depends on the map order)
	if len(unconfirmed) > 0 {
		if nviol == 0 && pinnedViol == 0 {
			fmt.Printf("HARNESS-TROUBLE: %s\n", unconfirmed[0])
			return 2
		}
		for _, u := range unconfirmed {
			fmt.Printf("NOTE: %s (dropped: other violations of this run were confirmed)\n", u)
		}
	}
	wall := time.Since(start).Seconds()
	nviol += pinnedViol
	writeEvidence(prop, tier, baseSeed, info, sum, wall, nviol, knownIDs)
	fmt.Printf("%s %s: %d runs, %d statements, %d crash images, %.0f runs/h, simulated %.1f s, %d distinct event logs, %d distinct non-trivial, %d violations, %d known findings, %.1fs wall\n",
		prop, tier, sum.jobs, sum.stmts, sum.images, float64(sum.jobs)/wall*3600, float64(sum.simMs)/1000, len(sum.hashes), len(sum.fps), nviol, len(knownIDs), wall)
	return exit
}

func jobMode(mode string, id int) string {
	switch mode {
	case "lrudrive":
		if id%2 == 1 {
			return "lrudrive"
		}
		return ""
	}
	return mode
}

// census: events that must have been seen if the hooks are in place.
func census(prop string, s *summary) string {
	st := s.stats
	if st["lrudrive_seqs"] > 0 && st["store_opened"] == 0 {
		return ""
	}
	need := func(k string) string {
		if st[k] == 0 {
			return "no " + k + " event was seen in the whole batch"
		}
		return ""
	}
	for _, k := range []string{"store_opened", "page_write", "header_write", "flush", "wal_write", "wal_sync", "wal_file_write", "lru_hit"} {
		if m := need(k); m != "" {
			return m
		}
	}
	return ""
}

func samplePlan(p *core.Plan) interface{} {
	var stmts []string
	for i := range p.Stmts {
		if i >= 12 {
			stmts = append(stmts, fmt.Sprintf("... %d more", len(p.Stmts)-i))
			break
		}
		s := &p.Stmts[i]
		q, ok := s.SQLText()
		if !ok {
			q = fmt.Sprintf("%s %s [direct structs, %d rows]", s.Kind, s.Table, len(s.Rows))
		}
		if len(q) > 140 {
			q = q[:140] + "..."
		}
		stmts = append(stmts, q)
	}
	var imgs []string
	for i, im := range p.Images {
		if i >= 6 {
			imgs = append(imgs, fmt.Sprintf("... %d more", len(p.Images)-i))
			break
		}
		c := 0
		if im.Cont != nil {
			c = len(im.Cont.Stmts)
		}
		imgs = append(imgs, fmt.Sprintf("%s@stmt%d n=%d cut_at_sync=%v then %d statements", im.Site, im.Stmt, im.N, im.CutAtSync, c))
	}
	return map[string]interface{}{"seed": p.Seed, "knobs": p.Knobs, "statements": stmts, "directives": len(p.Directives), "images": imgs, "final": p.Final}
}

// ---- evidence ----

func writeEvidence(prop, tier string, seed uint64, info propInfo, s *summary, wall float64, nviol int, known []string) {
	faults := map[string]int64{}
	var notFired []string
	for _, k := range []string{"tick_delivered", "tick_delivered_in_stmt", "stall_in_stmt", "flusher_parked_on_lock", "tick_queued_while_busy", "tick_dropped",
		"clean_restart", "recoveries", "recoveries_with_redo", "image_boundary", "image_wal", "image_flush", "forced_flush", "open_error_injected",
		"image_flush_none", "image_flush_only-new", "image_flush_existing-without-all-new", "image_flush_all-pages-no-header", "image_flush_other", "image_flush_complete",
		"image_wal_len_write", "image_wal_body_write", "image_wal_sync_write", "image_wal_len_sync", "image_wal_body_sync", "image_wal_sync_sync",
		"lru_evict", "lru_refuse", "cold_read", "replay_redo", "replay_skip", "abandoned_cache_full"} {
		if s.stats[k] > 0 {
			faults[k] = s.stats[k]
		} else {
			notFired = append(notFired, k)
		}
	}
	for k, v := range s.stats {
		if strings.HasPrefix(k, "fault_") {
			faults[k] = v
		}
	}
	probes := map[string]int64{}
	for k, v := range s.stats {
		if strings.HasPrefix(k, "probe_") || strings.HasPrefix(k, "opage_") || strings.HasPrefix(k, "c13_") || strings.HasPrefix(k, "c16_") || strings.HasPrefix(k, "lrudrive_") || strings.HasPrefix(k, "adopted_") || strings.HasPrefix(k, "stmt_") {
			probes[k] = v
		}
	}
	sort.Slice(s.seeds, func(i, j int) bool { return s.seeds[i] < s.seeds[j] })
	seedRange := ""
	if len(s.seeds) > 0 {
		seedRange = fmt.Sprintf("%d..%d", s.seeds[0], s.seeds[len(s.seeds)-1])
	}
	ev := map[string]interface{}{
		"property_id": prop,
		"tier":        tier,
		"seed":        seed,
		"level":       info.level,
		"coverage": map[string]interface{}{
			"evaluations":                       s.jobs + s.images,
			"distinct_nontrivial":               len(s.fps),
			"rule":                              info.rule,
			"samples":                           s.samples,
			"simulated_runs":                    s.jobs,
			"crash_images_recovered":            s.images,
			"statements_executed":               s.stmts,
			"runs_per_hour":                     float64(s.jobs) / wall * 3600,
			"seeds_per_hour":                    float64(s.jobs) / wall * 3600,
			"run_seeds":                         seedRange,
			"simulated_time_s":                  float64(s.simMs) / 1000,
			"faults_fired":                      faults,
			"fault_kinds_not_fired_in_this_run": notFired,
			"reach_probes":                      probes,
			"distinct_event_logs":               len(s.hashes),
			"counters":                          s.stats,
			"runs_abandoned_precondition":       s.abandoned,
			"census":                            "passed",
			"known_findings_printed":            known,
			"real_components":                   []string{"sql scanner+parser", "engine executor and Session", "storage: catalog, B+ tree, page codec, LRU cache, WAL writer/reader, InitStorage recovery", "kernel VFS on tmpfs"},
			"stubbed_components":                []string{"100 ms ticker (virtual clock, ticks delivered by the simulator)", "process death (crash image synthesised from hook-built shadow files)", "stdout", "tty / signal handler / main() of both commands (never executed)"},
		},
		"assumptions": append(append([]string(nil), commonAssume...), info.assumptions...),
		"wall_s":      wall,
		"violations":  nviol,
	}
	b, _ := json.MarshalIndent(ev, "", " ")
	dir := filepath.Join(verifDir(), "evidence")
	os.MkdirAll(dir, 0755)
	os.WriteFile(filepath.Join(dir, prop+".json"), b, 0644)
}

// ---- replay files ----

type ReplayFile struct {
	Property  string            `json:"property"`
	Signature string            `json:"signature"`
	Oracle    string            `json:"oracle"`
	Features  map[string]string `json:"features"`
	Detail    string            `json:"detail"`
	Seed      uint64            `json:"seed"`
	Mode      string            `json:"mode,omitempty"`
	Race      bool              `json:"race,omitempty"` // found by the race-detector build: replay needs it too
	EventHash string            `json:"event_hash"`
	Plan      *core.Plan        `json:"plan"`
}

func planHashBytes(b []byte) string {
	h := sha256.Sum256(b)
	return hex.EncodeToString(h[:])[:12]
}

func planHash(p *core.Plan) string {
	h := sha256.Sum256(p.JSON())
	return hex.EncodeToString(h[:])[:12]
}

// runPlanJob runs an explicit plan on a fresh worker (re-dispatching on fatal deaths).
func runPlanJob(pl *pool, job Job) (*core.RunResult, string) {
	var w *workerProc
	defer func() {
		if w != nil {
			w.stop()
		}
	}()
	for attempt := 0; attempt < 40; attempt++ {
		if w == nil {
			var err error
			w, err = pl.spawnKind(job.Race)
			if err != nil {
				return nil, err.Error()
			}
		}
		m, died, h := w.runJob(&job)
		if h != "" {
			w = nil
			return nil, h
		}
		if died {
			w = nil
			continue
		}
		return m.Result, ""
	}
	return nil, "job never completed"
}

func hasSig(res *core.RunResult, sig string) *core.Violation {
	if res == nil {
		return nil
	}
	for _, v := range res.Violations {
		if v.Signature() == sig {
			return v
		}
	}
	return nil
}

func minimiseAndWrite(pl *pool, prop string, job Job, plan *core.Plan, v *core.Violation) (path string, confirmed bool, detail string) {
	sig := v.Signature()
	mode := job.Mode
	if mode == "c13sweep" {
		mode = ""
	}
	run := func(p *core.Plan) *core.Violation {
		res, _ := runPlanJob(pl, Job{ID: 0, Prop: prop, Tier: job.Tier, Seed: job.Seed, Plan: p, Mode: mode, Race: job.Race})
		return hasSig(res, sig)
	}
	best := plan.Clone()
	if mode != "lrudrive" {
		if first := run(best); first == nil {
			return "", false, "the plan that failed in the batch does not fail when run alone"
		}
		budget := 200
		if v.Features["how"] == "fatal" {
			budget = 40
		}
		if os.Getenv("SIM_NO_MINIMISE") != "" {
			budget = 1
		}
		minDeadline := time.Now().Add(40 * time.Second)
		best = core.Minimise(best, v, func(p *core.Plan) bool {
			if time.Now().After(minDeadline) {
				return false
			}
			return run(p) != nil
		}, budget)
	}
	res, h := runPlanJob(pl, Job{ID: 0, Prop: prop, Tier: job.Tier, Seed: job.Seed, Plan: best, Mode: mode, Race: job.Race})
	if h != "" {
		return "", false, h
	}
	fv := hasSig(res, sig)
	if fv == nil {
		return "", false, "minimised plan lost the violation"
	}
	rf := &ReplayFile{Property: prop, Signature: sig, Oracle: fv.Oracle, Features: fv.Features, Detail: fv.Detail, Seed: job.Seed, Mode: mode, Race: job.Race, EventHash: res.EventHash, Plan: best}
	b, _ := json.MarshalIndent(rf, "", " ")
	dir := filepath.Join(verifDir(), "replays", prop)
	os.MkdirAll(dir, 0755)
	path = filepath.Join(dir, planHash(best)+".json")
	os.WriteFile(path, b, 0644)
	// replay once more in a fresh process; it must fail identically
	res2, h := runPlanJob(pl, Job{ID: 0, Prop: prop, Tier: job.Tier, Seed: job.Seed, Plan: best, Mode: mode, Race: job.Race})
	if h != "" || hasSig(res2, sig) == nil || res2.EventHash != res.EventHash {
		return path, false, "replay in a fresh process did not reproduce the identical failure"
	}
	return path, true, fv.String()
}

func replay(path string) int {
	b, err := os.ReadFile(path)
	if err != nil {
		fmt.Fprintln(os.Stderr, err)
		return 2
	}
	var drf driverReplay
	if json.Unmarshal(b, &drf) == nil && drf.Driver {
		return driverReplayFile(&drf)
	}
	var rf ReplayFile
	dec := json.NewDecoder(bytes.NewReader(b))
	if err := dec.Decode(&rf); err != nil {
		fmt.Fprintln(os.Stderr, err)
		return 2
	}
	pl, err := newPool()
	if err != nil {
		fmt.Fprintln(os.Stderr, err)
		return 2
	}
	defer pl.cleanup()
	res, h := runPlanJob(pl, Job{ID: 0, Prop: rf.Property, Tier: "quick", Seed: rf.Seed, Plan: rf.Plan, Mode: rf.Mode, Race: rf.Race})
	if h != "" {
		fmt.Println("HARNESS-TROUBLE:", h)
		return 2
	}
	fmt.Printf("replay of %s: event log %s (recorded %s)\n", path, res.EventHash, rf.EventHash)
	if os.Getenv("SIM_DEBUG") != "" {
		b, _ := json.Marshal(res.Stats)
		fmt.Println(string(b), res.Abandoned)
	}
	for _, v := range res.Violations {
		fmt.Println("  ", v.String())
	}
	if os.Getenv("SIM_RERECORD") != "" && len(res.Violations) > 0 {
		v := res.Violations[0]
		rf.Signature, rf.Oracle, rf.Features, rf.Detail, rf.EventHash = v.Signature(), v.Oracle, v.Features, v.Detail, res.EventHash
		nb, _ := json.MarshalIndent(&rf, "", " ")
		os.WriteFile(path, nb, 0644)
		fmt.Println("re-recorded with signature", rf.Signature)
	}
	if v := hasSig(res, rf.Signature); v != nil {
		findings := loadFindings()
		if f := matchFinding(findings, v); f != nil {
			fmt.Printf("KNOWN-FINDING: property=%s %s [%s]\n", f.Property, f.What, f.ID)
			return 0
		}
		fmt.Printf("VIOLATION property=%s replay=%s\n", rf.Property, path)
		return 1
	}
	fmt.Println("the recorded violation did not occur")
	return 0
}
